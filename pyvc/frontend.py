"""Extraction: parse the *current* working tree of /repo and build module / class tables.

Dropped by extraction, and nothing else: docstrings, comments, return annotations,
`# type: ignore`.  Parameter annotations are kept (used as type hints when a contract gives
no type).  There is no hand-written copy of any repository function in /verif."""
from __future__ import annotations

import ast
import hashlib
import os

REPO = os.environ.get("PYVC_REPO", "/repo")

MODULE_FILES = {
    "probables.utilities": "probables/utilities.py",
    "probables.hashes": "probables/hashes.py",
    "probables.constants": "probables/constants.py",
    "probables.exceptions": "probables/exceptions.py",
    "probables.blooms.bloom": "probables/blooms/bloom.py",
    "probables.blooms.countingbloom": "probables/blooms/countingbloom.py",
    "probables.blooms.expandingbloom": "probables/blooms/expandingbloom.py",
    "probables.countminsketch.countminsketch": "probables/countminsketch/countminsketch.py",
    "probables.cuckoo.cuckoo": "probables/cuckoo/cuckoo.py",
    "probables.cuckoo.countingcuckoo": "probables/cuckoo/countingcuckoo.py",
    "probables.quotientfilter.quotientfilter": "probables/quotientfilter/quotientfilter.py",
}


class FuncInfo:
    def __init__(self, node, module, cls, kind, path):
        self.node = node
        self.module = module
        self.cls = cls            # class short name or None
        self.kind = kind          # method | classmethod | staticmethod | property | setter | function
        self.path = path
        self.name = node.name

    @property
    def qualname(self):
        return f"{self.cls}.{self.name}" if self.cls else f"{self.module}.{self.name}"

    @property
    def span(self):
        return (self.node.lineno, self.node.end_lineno)


class ClassSrc:
    def __init__(self, name, module, node):
        self.name = name
        self.module = module
        self.node = node
        self.bases = []
        self.methods = {}      # name -> FuncInfo (methods, classmethods, staticmethods)
        self.getters = {}      # property name -> FuncInfo
        self.setters = {}
        self.consts = {}       # class-level assignments name -> ast node
        self.slots = []


class Repo:
    def __init__(self, root=None):
        self.root = root or REPO
        self.modules = {}      # module -> ast.Module
        self.sha = {}          # relative path -> sha256
        self.funcs = {}        # "module.func" -> FuncInfo
        self.classes = {}      # short name -> ClassSrc
        self.consts = {}       # module -> {name: ast node}
        self.imports = {}      # module -> {local name: (module, name)}
        self.errors = []
        for mod, rel in MODULE_FILES.items():
            p = os.path.join(self.root, rel)
            try:
                src = open(p, encoding="utf-8").read()
                tree = ast.parse(src)
            except (OSError, SyntaxError) as e:  # reported, never silently skipped
                self.errors.append(f"{rel}: {e}")
                continue
            self.sha[rel] = hashlib.sha256(src.encode()).hexdigest()
            self.modules[mod] = tree
            self._index(mod, rel, tree)

    def _index(self, mod, rel, tree):
        self.consts[mod] = {}
        self.imports[mod] = {}
        for node in tree.body:
            if isinstance(node, ast.ImportFrom) and node.module:
                for a in node.names:
                    self.imports[mod][a.asname or a.name] = (node.module, a.name)
            elif isinstance(node, ast.Import):
                for a in node.names:
                    self.imports[mod][a.asname or a.name] = (a.name, None)
            elif isinstance(node, ast.Assign) and len(node.targets) == 1 and isinstance(node.targets[0], ast.Name):
                self.consts[mod][node.targets[0].id] = node.value
            elif isinstance(node, ast.FunctionDef):
                self.funcs[f"{mod}.{node.name}"] = FuncInfo(node, mod, None, "function", rel)
            elif isinstance(node, ast.ClassDef):
                self._index_class(mod, rel, node)

    def _index_class(self, mod, rel, node):
        c = ClassSrc(node.name, mod, node)
        for b in node.bases:
            if isinstance(b, ast.Name):
                c.bases.append(b.id)
        for item in node.body:
            if isinstance(item, ast.FunctionDef):
                kind = "method"
                for d in item.decorator_list:
                    if isinstance(d, ast.Name) and d.id in ("classmethod", "staticmethod", "property"):
                        kind = d.id
                    elif isinstance(d, ast.Attribute) and d.attr == "setter":
                        kind = "setter"
                fi = FuncInfo(item, mod, node.name, kind, rel)
                if kind == "property":
                    c.getters[item.name] = fi
                elif kind == "setter":
                    c.setters[item.name] = fi
                else:
                    c.methods[item.name] = fi
            elif isinstance(item, ast.Assign) and len(item.targets) == 1 and isinstance(item.targets[0], ast.Name):
                n = item.targets[0].id
                if n == "__slots__":
                    try:
                        c.slots = list(ast.literal_eval(item.value))
                    except Exception:
                        c.slots = []
                else:
                    c.consts[n] = item.value
        self.classes[node.name] = c

    # ----- lookups -------------------------------------------------------------------
    def mro(self, cls):
        out = []
        todo = [cls]
        while todo:
            k = todo.pop(0)
            if k in out or k not in self.classes:
                continue
            out.append(k)
            todo = self.classes[k].bases + todo
        return out

    def is_subclass(self, cls, base):
        return base in self.mro(cls)

    def find_method(self, cls, name):
        for k in self.mro(cls):
            m = self.classes[k].methods.get(name)
            if m is not None:
                return m
        return None

    def find_getter(self, cls, name):
        for k in self.mro(cls):
            m = self.classes[k].getters.get(name)
            if m is not None:
                return m
        return None

    def find_setter(self, cls, name):
        for k in self.mro(cls):
            m = self.classes[k].setters.get(name)
            if m is not None:
                return m
        return None

    def find_class_const(self, cls, name):
        """class-level constant through the MRO; returns (defining class, ast node)"""
        for k in self.mro(cls):
            c = self.classes[k]
            for cand in (name, mangle(k, name)):
                if cand in c.consts:
                    return k, c.consts[cand]
            # a name already mangled for class k
            pre = f"_{k}__"
            if name.startswith(pre) and ("__" + name[len(pre):]) in c.consts:
                return k, c.consts["__" + name[len(pre):]]
        return None, None

    def all_methods(self, cls):
        """every FuncInfo reachable on cls (methods, getters, setters), own and inherited"""
        seen = {}
        for k in reversed(self.mro(cls)):
            c = self.classes[k]
            for d in (c.methods, c.getters, c.setters):
                for n, fi in d.items():
                    seen[(fi.kind if fi.kind in ("property", "setter") else "m", n)] = fi
        return list(seen.values())


def mangle(cls, name):
    """Python private-name mangling inside class `cls`."""
    if name.startswith("__") and not name.endswith("__"):
        return "_" + cls.lstrip("_") + name
    return name


def strip_docstring(body):
    if body and isinstance(body[0], ast.Expr) and isinstance(body[0].value, ast.Constant) \
            and isinstance(body[0].value.value, str):
        return body[1:]
    return body
