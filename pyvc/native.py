"""Native layer (runs under /venv/bin/python with the real repository code):

* small-scope contract check of one function: enumerate pre-states that satisfy `requires`
  natively, run the REAL function, evaluate the contract clauses natively  -> first failing input
* replay of a stored failing input against the current tree

usage:  native.py search <contract key> <ctx|-> <quick|thorough> <seed>
        native.py replay <replay file>
Output: one JSON object on stdout."""
from __future__ import annotations

import ast
import copy
import importlib
import json
import os
import random
import signal
import sys
import time
from array import array

HERE = os.path.dirname(os.path.abspath(__file__))
sys.path.insert(0, os.path.dirname(HERE))
REPO = os.environ.get("PYVC_REPO", "/repo")
sys.path.insert(0, REPO)

from pyvc.api import CONTRACTS  # noqa: E402


class Timeout(Exception):
    pass


def _alarm(signum, frame):
    raise Timeout()


def with_timeout(seconds, fn, *a, **kw):
    signal.signal(signal.SIGALRM, _alarm)
    signal.setitimer(signal.ITIMER_REAL, seconds)
    try:
        return fn(*a, **kw)
    finally:
        signal.setitimer(signal.ITIMER_REAL, 0)


# ---- JSON <-> values ---------------------------------------------------------------------------
def enc(v):
    if isinstance(v, bytes):
        return {"__bytes__": v.hex()}
    if isinstance(v, array):
        return {"__array__": v.typecode, "items": list(v)}
    if isinstance(v, (list, tuple)):
        return [enc(x) for x in v]
    if isinstance(v, dict):
        return {"__dict__": [[enc(k), enc(x)] for k, x in v.items()]}
    if isinstance(v, (int, float, str, bool)) or v is None:
        return v
    return repr(v)


def dec(v):
    if isinstance(v, dict):
        if "__bytes__" in v:
            return bytes.fromhex(v["__bytes__"])
        if "__array__" in v:
            return array(v["__array__"], v["items"])
        if "__bytesio__" in v:
            import io
            b = io.BytesIO()
            b.write(bytes.fromhex(v["__bytesio__"]))       # positioned at the end: further writes append
            return b
        if "__struct__" in v:
            import struct
            return struct.Struct(v["__struct__"])
        if "__hex__" in v:
            return v["__hex__"]                            # a hex text is a plain str natively
        if "__dict__" in v:
            return {dec(k): dec(x) for k, x in v["__dict__"]}
        if "__recipe__" in v:
            return build(v)
        if "__func__" in v:
            return resolve_func(v["__func__"])
    if isinstance(v, list):
        return [dec(x) for x in v]
    return v


def resolve_func(spec):
    """named hash strategies usable in recipes (so scopes can range over positions, not keys)"""
    if spec is None:
        return None
    if isinstance(spec, str):
        mod, name = spec.rsplit(".", 1)
        return getattr(importlib.import_module(mod), name)
    kind = spec.get("kind")
    if kind == "table":
        table = {dec(k): v for k, v in spec["table"]}
        default = spec.get("default", [0])

        def hf(key, depth=1, _t=table, _d=default):
            vals = _t.get(key, _d)
            return [vals[i % len(vals)] for i in range(depth)]
        hf.__name__ = "table_hash"
        return hf
    if kind == "simple_table":
        table = {dec(k): v for k, v in spec["table"]}
        default = spec.get("default", 0)

        def sf(key, *a, _t=table, _d=default):
            if isinstance(key, str) and key.isdigit() and spec.get("digits") is not None:
                return spec["digits"].get(key, _d)
            return _t.get(key, _d)
        sf.__name__ = "simple_table_hash"
        return sf
    if kind == "bytes_md5":
        import hashlib
        return lambda k, i=0: hashlib.md5(k + bytes([i % 256])).digest()
    if kind == "bytes_sha":
        import hashlib
        return lambda k, i=0: hashlib.sha256(bytes([i % 256]) + k).digest()[:8 + i % 5]
    if kind == "int_simple":
        def f(k, i=0):
            data = k if isinstance(k, bytes) else k.encode("utf-8")
            h = 1469598103934665603 + 7 * i
            for b in data:
                h = ((h ^ b) * 1099511628211) % 2**61
            return h
        return f
    raise ValueError(f"unknown function recipe {spec}")


def build(recipe):
    """{"__recipe__": "module.Class", "args": {...}, "set": {slot: value}, "ops": [[method, args...]]}"""
    mod, name = recipe["__recipe__"].rsplit(".", 1)
    cls = getattr(importlib.import_module(mod), name)
    kwargs = {k: dec(v) for k, v in recipe.get("args", {}).items()}
    obj = cls(**kwargs)
    for op in recipe.get("ops", []):
        getattr(obj, op[0])(*[dec(a) for a in op[1:]])
    for op in recipe.get("ops_tolerant", []):
        try:
            getattr(obj, op[0])(*[dec(a) for a in op[1:]])
        except Exception:   # noqa: BLE001   (e.g. CuckooFilterFullError while building a nearly full table)
            pass
    for slot, v in recipe.get("set", {}).items():
        setattr_deep(obj, slot, dec(v))
    return obj


def setattr_deep(obj, slot, v):
    cur = getattr(obj, slot, None)
    if isinstance(cur, array) and isinstance(v, list):
        v = array(cur.typecode, v)
    object.__setattr__(obj, slot, v) if not hasattr(type(obj), "__slots__") else setattr(obj, slot, v)


# ---- native evaluation of contract clauses -------------------------------------------------------
class OldRewriter(ast.NodeTransformer):
    """old(E) -> (lambda self=__old['self'], p=__old['p'], ...: E)()  : state names rebound to the
    pre-state copies, bound variables of enclosing generators stay visible"""

    def __init__(self, names):
        self.names = names

    def visit_Compare(self, node):
        self.generic_visit(node)
        # objects of the library have no __eq__: `==` in a specification means structural equality
        if len(node.ops) == 1 and isinstance(node.ops[0], (ast.Eq, ast.NotEq)):
            call = ast.Call(func=ast.Name(id="__speq", ctx=ast.Load()), args=[node.left, node.comparators[0]], keywords=[])
            if isinstance(node.ops[0], ast.NotEq):
                call = ast.UnaryOp(op=ast.Not(), operand=call)
            return ast.copy_location(call, node)
        return node

    def visit_Call(self, node):
        self.generic_visit(node)
        if isinstance(node.func, ast.Name) and node.func.id == "implies" and len(node.args) == 2:
            # lazy: the consequent is not evaluated when the antecedent is false
            return ast.copy_location(ast.BoolOp(op=ast.Or(), values=[ast.UnaryOp(op=ast.Not(), operand=node.args[0]),
                                                                     node.args[1]]), node)
        if isinstance(node.func, ast.Name) and node.func.id == "old" and len(node.args) == 1:
            args = ast.arguments(posonlyargs=[], args=[ast.arg(arg=n) for n in self.names], kwonlyargs=[],
                                 kw_defaults=[], defaults=[
                ast.Subscript(value=ast.Name(id="__old", ctx=ast.Load()), slice=ast.Constant(value=n), ctx=ast.Load())
                for n in self.names])
            lam = ast.Lambda(args=args, body=node.args[0])
            return ast.copy_location(ast.Call(func=lam, args=[], keywords=[]), node)
        return node


def spec_globals():
    spec = importlib.import_module("contracts.spec")
    g = {k: getattr(spec, k) for k in dir(spec) if not k.startswith("__")}
    import probables
    for k in probables.__all__:
        g[k] = getattr(probables, k)
    from probables.cuckoo.countingcuckoo import CountingCuckooBin
    g["CountingCuckooBin"] = CountingCuckooBin
    import probables.hashes as _h
    for k in ("default_fnv_1a", "default_md5", "default_sha256", "fnv_1a", "fnv_1a_32"):
        g[k] = getattr(_h, k)
    return g


UNIVERSE = set()


def ints_in(obj, out, depth=0):
    """every int stored anywhere in a value (universe for natively evaluated `for f in allkeys()` clauses)"""
    if depth > 6:
        return
    if isinstance(obj, bool):
        return
    if isinstance(obj, int):
        out.add(obj)
    elif isinstance(obj, (list, tuple, array, set)):
        for x in obj:
            ints_in(x, out, depth + 1)
    elif isinstance(obj, dict):
        for k, v in obj.items():
            ints_in(k, out, depth + 1)
            ints_in(v, out, depth + 1)
    elif hasattr(type(obj), "__slots__") and type(obj).__module__.startswith("probables"):
        for v in slots_of(obj).values():
            ints_in(v, out, depth + 1)


def eval_clause(text, env, old_env):
    tree = ast.parse(text, mode="eval")
    tree = OldRewriter(sorted(old_env)).visit(tree)
    ast.fix_missing_locations(tree)
    g = spec_globals()
    g.update(env)
    g["__old"] = old_env
    g["__speq"] = spec_equal
    uni = set()
    for v in list(env.values()) + list(old_env.values()):
        ints_in(v, uni)
    base = g["allkeys"]
    g["allkeys"] = lambda *maps: (base(*maps) if maps else sorted(uni))
    return bool(eval(compile(tree, "<clause>", "eval"), g))


def spec_equal(a, b):
    if hasattr(type(a), "__slots__") and not isinstance(a, (int, float, str, bytes)) and type(a).__module__.startswith("probables"):
        return same_value(a, b)
    if callable(a) and callable(b):
        return a is b or getattr(a, "__wrapped__", a) is getattr(b, "__wrapped__", b)
    return a == b


def snapshot(obj):
    """deep copy of an object's slots (objects with mmap/file slots: copy what can be copied)"""
    try:
        return copy.deepcopy(obj)
    except Exception:
        return obj


def slots_of(obj):
    out = {}
    for k in type(obj).__mro__:
        for s in getattr(k, "__slots__", ()):
            name = s if not s.startswith("__") or s.endswith("__") else f"_{k.__name__.lstrip('_')}{s}"
            if hasattr(obj, name):
                out[name] = getattr(obj, name)
    if hasattr(obj, "__dict__"):
        out.update(obj.__dict__)
    return out


def same_value(a, b):
    if isinstance(a, array) and isinstance(b, array):
        return a.typecode == b.typecode and list(a) == list(b)
    if type(a) is not type(b):
        return False
    if hasattr(a, "__slots__") or (hasattr(a, "__dict__") and not callable(a)):
        sa, sb = slots_of(a), slots_of(b)
        return sa.keys() == sb.keys() and all(same_value(sa[k], sb[k]) for k in sa)
    if isinstance(a, (list, tuple)):
        return len(a) == len(b) and all(same_value(x, y) for x, y in zip(a, b))
    try:
        return a == b
    except Exception:
        return a is b


def resolve_callable(key, ctx, selfobj):
    c = CONTRACTS[key]
    parts = key.split(".")
    if c.kind == "function":
        try:
            mod = importlib.import_module(".".join(parts[:-1]))
            return getattr(mod, parts[-1]), None
        except ImportError:
            # nested function module.outer.inner: call outer(closure args)(remaining args)
            mod = importlib.import_module(".".join(parts[:-2]))
            outer = getattr(mod, parts[-2])
            closure = list(c.ghost)

            def call(**kw):
                cl = [kw.pop(n) for n in closure]
                return outer(*cl)(**kw)
            return call, None
    name = parts[1].split("@")[0]
    if c.kind in ("classmethod", "staticmethod") and selfobj is None:
        klass = spec_globals().get(ctx or parts[0])
        return getattr(klass, name), None
    if c.kind == "property":
        return (lambda s: getattr(s, name)), selfobj
    if name.startswith("__") and not name.endswith("__"):
        for k in type(selfobj).__mro__:
            m = f"_{k.__name__}{name}"
            if hasattr(selfobj, m):
                return getattr(type(selfobj), m), selfobj
    return getattr(type(selfobj), name), selfobj


def check_case(key, ctx, case, per_call_timeout=5.0):
    """run one case; returns None if every clause holds, else a dict describing the failure"""
    c = CONTRACTS[key]
    try:
        selfobj = dec(case["self"]) if case.get("self") is not None else None
        args = {k: dec(v) for k, v in case.get("args", {}).items()}
    except Exception as e:   # noqa: BLE001
        # the pre-state is built by running public operations of the real code: on a changed tree these may raise;
        # that is not a verdict about THIS function (the functions that raised have their own contracts)
        return {"skip": f"building the pre-state raised {type(e).__name__}: {e}", "prestate": True}
    env = dict(args)
    if selfobj is not None:
        env["self"] = selfobj
    if c.kind == "classmethod":
        env["cls"] = spec_globals().get(ctx or key.split(".")[0])
        args.pop("cls", None)
    if case.get("rand") is not None:
        script = list(case["rand"])
        install_random_script(script)
    # ghost definitions, then requires
    try:
        for lname, ltext in c.let:
            env[lname] = eval(compile(ast.parse(ltext, mode="eval"), "<let>", "eval"), dict(spec_globals(), **env))
    except Exception as e:   # noqa: BLE001
        return {"skip": f"let raised {type(e).__name__}: {e}"}
    try:
        for name, text in c.requires:
            if not eval_clause(text, env, {}):
                return {"skip": f"requires.{name}"}
    except Exception as e:
        return {"skip": f"requires raised {type(e).__name__}: {e}"}
    old_env = {k: snapshot(v) for k, v in env.items()}
    let_names = {n for n, _ in c.let}
    args = {k: v for k, v in args.items() if k not in let_names}
    fn, recv = resolve_callable(key, ctx, selfobj)
    exc = None
    result = None
    try:
        if recv is not None:
            result = with_timeout(per_call_timeout, fn, recv, **args)
        else:
            result = with_timeout(per_call_timeout, fn, **args)
    except Timeout:
        return {"clause": "terminates", "observed": f"no return within {per_call_timeout}s"}
    except Exception as e:   # noqa: BLE001
        exc = e
    finally:
        restore_random()
    if exc is not None:
        ename = type(exc).__name__
        spec = c.raises.get(ename)
        if spec is None:
            return {"clause": f"unexpected_exception.{ename}", "observed": f"{ename}: {exc}"}
        if not eval_clause(spec["when"], old_env, {}):
            return {"clause": f"raises.{ename}.only_when", "observed": f"{ename}: {exc}"}
        if spec.get("state", "unchanged") == "unchanged" and selfobj is not None \
                and not same_value(selfobj, old_env["self"]):
            return {"clause": f"raises.{ename}.state", "observed": "state changed on the exceptional path"}
        for name, text in spec.get("ensures", []):
            try:
                ok = eval_clause(text, env, old_env)
            except Exception as e2:   # noqa: BLE001
                return {"clause": f"raises.{ename}.{name}", "observed": f"clause evaluation raised {type(e2).__name__}: {e2}"}
            if not ok:
                return {"clause": f"raises.{ename}.{name}", "observed": f"{ename}: {exc}"}
        return None
    for ename, spec in c.raises.items():
        if spec.get("must", True) and eval_clause(spec["when"], old_env, {}):
            return {"clause": f"raises.{ename}.must_raise", "observed": f"returned {result!r:.200}"}
    env["result"] = result
    for name, text in c.ensures:
        try:
            ok = eval_clause(text, env, old_env)
        except Exception as e:   # noqa: BLE001
            return {"clause": f"ensures.{name}", "observed": f"clause evaluation raised {type(e).__name__}: {e}"}
        if not ok:
            return {"clause": f"ensures.{name}", "observed": f"result={result!r:.300}"}
    if c.result_is is not None:
        try:
            want = eval(compile(OldRewriter(sorted(old_env)).visit(ast.parse(c.result_is, mode="eval")) and
                                ast.fix_missing_locations(OldRewriter(sorted(old_env)).visit(ast.parse(c.result_is, mode="eval"))),
                                "<result_is>", "eval"), dict(spec_globals(), **env, __old=old_env))
        except Exception as e:   # noqa: BLE001
            return {"clause": "ensures.result_is", "observed": f"evaluation raised {type(e).__name__}: {e}"}
        if not same_value(result, want) and result != want:
            return {"clause": "ensures.result_is", "observed": f"result={result!r:.200} expected={want!r:.200}"}
    # frame
    if selfobj is not None:
        mods = set()
        for m in c.modifies:
            if m == "self":
                mods = None
                break
            if m.startswith("self."):
                mods.add(m.split(".")[1].split("[")[0])
        if mods is not None:
            now, before = slots_of(selfobj), slots_of(old_env["self"])
            for s, v in before.items():
                if s in mods or callable(v):
                    continue
                if s in now and not same_value(now[s], v):
                    return {"clause": f"frame.{type(selfobj).__name__}.{s}_unchanged",
                            "observed": f"{s}: {v!r:.100} -> {now[s]!r:.100}"}
    for k, v in args.items():
        if hasattr(v, "__slots__") and not any(m == k or m.startswith(k + ".") for m in c.modifies):
            if not same_value(v, old_env[k]):
                return {"clause": f"frame.{k}_unchanged", "observed": "argument object modified"}
    if c.pure and isinstance(result, (list, bytearray, dict, set)):
        # a pure function of its arguments: what the caller does to one result cannot show in the next one
        # (a memoised mutable result would)
        import copy as _copy
        first = _copy.deepcopy(result)
        try:
            if isinstance(result, list):
                result.append(None)
                if len(result) > 1:
                    del result[0]
            elif isinstance(result, bytearray):
                result.append(0)
            elif isinstance(result, dict):
                result[object()] = None
            else:
                result.add(object())
            again = with_timeout(per_call_timeout, fn, *([recv] if recv is not None else []), **args)
        except Exception as e:   # noqa: BLE001
            return {"clause": "pure.second_call", "observed": f"raised {type(e).__name__}: {e}"}
        if again is result or again != first:
            return {"clause": "pure.same_arguments_same_fresh_result",
                    "observed": f"first call {first!r:.120}; after the caller changed that list the same call gave {again!r:.120}"}
    return None


_REAL_RANDOM = {}


def install_random_script(script):
    _REAL_RANDOM["choice"], _REAL_RANDOM["randint"] = random.choice, random.randint
    it = iter(script)

    def choice(seq):
        i = next(it, 0)
        return seq[i % len(seq)]

    def randint(a, b):
        i = next(it, 0)
        return a + (i % (b - a + 1))
    random.choice, random.randint = choice, randint


def restore_random():
    if _REAL_RANDOM:
        random.choice, random.randint = _REAL_RANDOM["choice"], _REAL_RANDOM["randint"]
        _REAL_RANDOM.clear()


def search(key, ctx, tier, seed):
    import contracts  # noqa: F401
    gens = importlib.import_module("contracts.gens")
    g = gens.GENS.get((key, ctx)) or gens.GENS.get((key, None)) or gens.GENS.get(key)
    if g is None:
        return {"status": "no-generator", "cases": 0}
    rnd = random.Random(seed)
    n = skipped = prestate = 0
    why = None
    t0 = time.time()
    budget = 20 if tier == "quick" else 120
    for case in g(tier, rnd):
        n += 1
        bad = check_case(key, ctx, case)
        if bad is not None and "skip" in bad:
            skipped += 1
            if bad.get("prestate"):
                prestate += 1
                why = why or bad["skip"]
            continue
        if bad is not None:
            return {"status": "refuted", "cases": n, "skipped": skipped, "failure": bad, "case": case,
                    "key": key, "ctx": ctx}
        if time.time() - t0 > budget:
            break
    if prestate and prestate == n:
        return {"status": "prestate-error", "cases": n, "skipped": skipped, "why": why}
    return {"status": "clean", "cases": n, "skipped": skipped, **({"prestate_errors": prestate, "why": why} if prestate else {})}


def main():
    import contracts  # noqa: F401
    mode = sys.argv[1]
    if mode == "search":
        key, ctx, tier, seed = sys.argv[2], sys.argv[3], sys.argv[4], int(sys.argv[5])
        print(json.dumps(search(key, None if ctx == "-" else ctx, tier, seed)))
    elif mode == "replay":
        rp = json.load(open(sys.argv[2]))
        if "case" not in rp:
            print(json.dumps({"status": "no-input", "note": "replay file carries solver output only"}))
            return
        bad = check_case(rp["key"], rp.get("ctx"), rp["case"])
        print(json.dumps({"status": "refuted" if bad and "skip" not in bad else "clean", "failure": bad}))


if __name__ == "__main__":
    main()
