"""Calls, statements, loops, and the per-function verification driver (extends sym.Exec)."""
from __future__ import annotations

import ast

import z3

from . import theories as TH
from .api import CLASSES, CONTRACTS
from .frontend import mangle, strip_docstring
from .sym import (NeedsFork, EXC_NAMES, Engine, Exec, Exit, Obligation, State, TH_real, Unsupported, _as_expression, as_int,
                  as_real, root_of)
from .values import (TAny, TBool, TFunc, TInt, TMap, TNone, TObj, TOpt, TReal, TSeq, TStr, TTuple, VBool,
                     VBoundMethod, VBuiltin, VClass, VEnum, VFunc, VInt, VMap, VModule, VNone, VOpaque, VOpt, VRange,
                     VReal, VRef, VSeq, VStr, VStream, VStruct, VStructFmt, VTuple, fresh_name, parse_type)

SEQ_MUTATORS = {"append", "pop", "extend", "remove", "sort", "fromlist", "insert", "clear"}
FILE_METHODS = {"seek", "write", "flush", "close", "fileno", "read"}

rsum = z3.Function("rsum", z3.ArraySort(z3.IntSort(), z3.IntSort()), z3.IntSort(), z3.IntSort(), z3.IntSort())
HFarr = z3.Function("HFarr", z3.IntSort(), z3.IntSort(), z3.IntSort(), z3.ArraySort(z3.IntSort(), z3.IntSort()))
HFlen = z3.Function("HFlen", z3.IntSort(), z3.IntSort(), z3.IntSort(), z3.IntSort())
H1 = z3.Function("H1", z3.IntSort(), z3.IntSort(), z3.IntSort(), z3.IntSort())   # simple hash f(key, seed)
str_of_int = z3.Function("str_of_int", z3.IntSort(), z3.IntSort())
str_lower = z3.Function("str_lower", z3.IntSort(), z3.IntSort())
r_log = z3.Function("r_log", z3.RealSort(), z3.RealSort())
r_exp = z3.Function("r_exp", z3.RealSort(), z3.RealSort())
r_log2 = z3.Function("r_log2", z3.RealSort(), z3.RealSort())
f32 = z3.Function("f32", z3.RealSort(), z3.RealSort())
r_round = z3.Function("r_round", z3.RealSort(), z3.IntSort())


def ceil_real(x):
    # ceil(x) = -floor(-x); z3 ToInt is floor
    return -z3.ToInt(-x)


class Executor(Exec):
    def __init__(self, *a, **kw):
        super().__init__(*a, **kw)
        self.old_stack = []

    # ================================================================== calls =========
    def e_Call(self, node, st):
        f = node.func
        # ---- syntactic special forms -------------------------------------------------
        if isinstance(f, ast.Attribute) and f.attr == "count" and isinstance(f.value, ast.Call) \
                and isinstance(f.value.func, ast.Name) and f.value.func.id == "bin":
            x = as_int(self.eval(f.value.args[0], st))
            if not self.spec:
                self.oblige(st, f"L{self.cur_line}.popcount_arg_nonneg", x >= 0)
            return VInt(TH.popcount(x))
        if isinstance(f, ast.Name):
            if f.id == "old":
                return self.eval_old(node.args[0], st)
            if f.id == "at_entry":
                return self.eval_at_entry(node.args[0], st)
            if f.id in ("all", "any") and len(node.args) == 1 and isinstance(node.args[0], ast.GeneratorExp):
                return self.quantifier(f.id, node.args[0], st)
            if f.id == "sum" and len(node.args) == 1 and isinstance(node.args[0], (ast.GeneratorExp, ast.ListComp)):
                r = self.sum_over_range(node.args[0], st)
                if r is not None:
                    return r
            if f.id == "assume" and self.contract is not None and self.contract.kind == "lemma":
                # explicit hypothesis of a lemma (listed in evidence as an assumption of that lemma)
                c_ = self.cond(node.args[0], st)
                st.pc.append(c_)
                self.lib_used.add("lemma hypothesis introduced with assume(): " + ast.unparse(node.args[0])[:200])
                return VNone()
            if f.id == "implies":
                a = self.truth(st, self.eval(node.args[0], st))
                if z3.is_false(z3.simplify(a)):
                    return VBool(True)
                mark = len(st.pc)
                st.pc.append(a)
                b = self.truth(st, self.eval(node.args[1], st))
                learned = st.pc[mark + 1:]
                del st.pc[mark:]
                if not self.spec:
                    st.pc += [z3.Implies(a, f_) for f_ in learned]
                return VBool(z3.Implies(a, b))
            if f.id == "iff" and self.spec:
                return VBool(self.truth(st, self.eval(node.args[0], st)) == self.truth(st, self.eval(node.args[1], st)))
            if f.id == "super":
                raise Unsupported("bare super()")
        # super().m(...)
        if isinstance(f, ast.Attribute) and isinstance(f.value, ast.Call) and isinstance(f.value.func, ast.Name) \
                and f.value.func.id == "super":
            recv = st.env.get("self")
            args, kwargs = self.eval_args(node, st)
            return self.call_method(st, recv, f.attr, args, kwargs, after=self.defcls)
        # mutating sequence / map methods need the receiver's location
        if isinstance(f, ast.Attribute) and f.attr in SEQ_MUTATORS:
            loc = self.try_loc(f.value, st)
            if loc is not None:
                cur = self.read(st, loc)
                if isinstance(cur, VSeq):
                    args, kwargs = self.eval_args(node, st)
                    return self.seq_mutate(st, loc, cur, f.attr, args)
                if isinstance(cur, VMap):
                    args, kwargs = self.eval_args(node, st)
                    return self.map_mutate(st, loc, cur, f.attr, args)
        if isinstance(f, ast.Attribute) and f.attr in ("seek", "read") and isinstance(f.value, ast.Name):
            rf = st.env.get(f.value.id)
            if isinstance(rf, VOpaque) and rf.desc == "readfile":
                from . import streams
                args, kwargs = self.eval_args(node, st)
                return streams.readfile_method(self, st, rf, f.attr, args, f.value)
        if isinstance(f, ast.Attribute) and f.attr in FILE_METHODS:
            loc = self.try_loc(f.value, st)
            if loc is not None:
                cur = self.read(st, loc)
                from .values import VFilePtr
                if isinstance(cur, VFilePtr):
                    from . import streams
                    args, kwargs = self.eval_args(node, st)
                    if f.attr == "fileno":
                        o = VOpaque("fileno")
                        o.path = getattr(cur, "_path", None)
                        return o
                    return streams.fileptr_method(self, st, loc, cur, f.attr, args)
                if isinstance(cur, VSeq) and cur.kind == "mmap" and f.attr in ("flush", "close"):
                    self.lib_used.add("mmap (MAP_SHARED): stores into the mapping ARE the file's bytes; flush() changes "
                                      "nothing at this level; once the mapping is closed the file at the owner's "
                                      "_filepath holds exactly the mapped bytes (ghost link: the mapping of an on-disk "
                                      "filter maps the file at its _filepath)")
                    if f.attr == "close" and loc[0] == "vfield":
                        from . import streams
                        owner = self.read(st, loc[1])
                        pth = owner.fields.get("_filepath") if isinstance(owner, VStruct) else None
                        if isinstance(pth, VStr):
                            streams.fs_store(self, st, pth, cur)
                    return VNone()
        fv = self.eval(f, st)
        args, kwargs = self.eval_args(node, st)
        self.call_node = node
        # where the positional arguments live (a helper executed in place must see a list / dict / file argument as
        # the caller's OBJECT, not as a copy)
        self.call_arg_locs = [self.try_loc(a, st) if isinstance(a, (ast.Name, ast.Attribute)) else None for a in node.args]
        if isinstance(fv, VBoundMethod):
            recv = fv.recv
            if isinstance(recv, (VRef, VStruct)):
                return self.call_method(st, recv, fv.name, args, kwargs)
            if isinstance(recv, VClass):
                return self.call_classlevel(st, recv.name, fv.name, args, kwargs)
            return self.call_value_method(st, recv, fv.name, args, kwargs, node)
        if isinstance(fv, VClass):
            return self.construct(st, fv.name, args, kwargs)
        if isinstance(fv, VBuiltin):
            return self.call_builtin(st, fv.name, args, kwargs, node)
        if isinstance(fv, VFunc):
            return self.call_hashfunc(st, fv, args, kwargs)
        if isinstance(fv, VStr) and isinstance(f, ast.Attribute):
            return self.call_method_value(st, f, fv, args, kwargs)
        if isinstance(fv, VOpaque) and fv.desc.startswith("digest:"):
            return fv
        if isinstance(fv, VOpaque) and fv.desc == "foreign":
            return VOpaque("foreign")
        raise Unsupported(f"call of {fv}")

    def call_method_value(self, st, f, fv, args, kwargs):
        """call of a bound method stored in a field (CountMinSketch.__query_method): case split over the
        methods of the class whose name ends in `_query`, each through its own contract"""
        recv = self.eval(f.value, st)
        if not isinstance(recv, VRef):
            raise Unsupported("call of a method value on a non-object")
        cands = [n for k in self.repo.mro(recv.cls) for n in self.repo.classes[k].methods if n.endswith("_query")]
        if not cands:
            raise Unsupported("call of a method-valued field: no candidate methods")
        from .values import str_code
        res = None
        conds = []
        for n in sorted(set(cands)):
            code = z3.IntVal(str_code("method:" + n.lstrip("_")))
            cond = fv.t == code
            conds.append(cond)
            st.pc.append(cond)
            mark = len(st.pc)
            saved_cls = self.defcls
            try:
                r = self.call_method(st, recv, n, list(args), dict(kwargs))
            finally:
                self.defcls = saved_cls
            learned = st.pc[mark:]
            del st.pc[mark - 1:]
            for fact in learned:
                st.pc.append(z3.Implies(cond, fact))
            res = r if res is None else self.ite(st, cond, r, res)
        self.oblige(st, f"L{self.cur_line}.method_value_is_a_query_method", z3.Or(*conds))
        return res

    def eval_args(self, node, st):
        args = []
        for a in node.args:
            if isinstance(a, ast.Starred):
                raise Unsupported("star args")
            args.append(self.eval(a, st))
        kwargs = {}
        for k in node.keywords:
            if k.arg is None:
                raise Unsupported("**kwargs")
            kwargs[k.arg] = self.eval(k.value, st)
        return args, kwargs

    # ---- specification forms ------------------------------------------------------------
    def eval_old(self, expr, st):
        if not self.old_stack:
            raise Unsupported("old() without a pre-state")
        o = self.old_stack[-1].fork()
        o.env = st.env
        o.pc = st.pc
        o.writelog = None
        return self.eval(expr, o)

    def eval_at_entry(self, expr, st):
        if not self.loop_entry:
            raise Unsupported("at_entry() outside a loop invariant")
        o = self.loop_entry[-1].fork()
        env = dict(o.env)
        for k, v in st.env.items():
            if k.startswith("_"):
                env[k] = v
        o.env = env
        o.pc = st.pc
        o.writelog = None
        return self.eval(expr, o)

    def sum_over_range(self, gen, st):
        """sum(f(j) for j in range(lo, hi))  ->  rsum(lambda j. f(j), lo, hi)   (index = value, so sums over
        different sub-ranges of the same generator share one array term);
        sum(f(x) for x in seq if c(x))      ->  rsum(lambda j. ite(c(seq[j]), f(seq[j]), 0), 0, len(seq))"""
        if len(gen.generators) != 1:
            return None
        g = gen.generators[0]
        if not isinstance(g.target, ast.Name):
            return None
        it = self.eval(g.iter, st)
        from . import lib_models
        j = z3.Int(f"sj%{len(self.binder_marks)}")
        saved_env = st.env
        st.env = dict(st.env)
        mark = len(st.pc)
        if isinstance(it, VRange):
            st.env[g.target.id] = VInt(j)
            lo, hi = it.lo, it.hi
        elif isinstance(it, VSeq) and isinstance(it.et, TInt):
            st.env[g.target.id] = self.seq_get(it, j)
            lo, hi = z3.IntVal(0), it.ln
        else:
            st.env = saved_env
            return None
        rng = z3.And(lo <= j, j < hi)
        st.pc.append(rng)
        self.binder_marks.append(([j], mark))
        try:
            cond = None
            for c in g.ifs:
                cv = self.truth(st, self.eval(c, st))
                cond = cv if cond is None else z3.And(cond, cv)
            v = as_int(self.eval(gen.elt, st))
            if cond is not None:
                v = z3.If(cond, v, z3.IntVal(0))
        finally:
            self.binder_marks.pop()
            self.close_binder(st, mark, [j], rng)
            st.env = saved_env
            self.flush_pending(st)
        self.lib_used.add("sum() over a range / filtered sequence = rsum(lambda, lo, hi): finite sum with unfolding / "
                          "extensionality / non-negativity axioms (T-rangesum, trusted)")
        return VInt(lib_models.rsum(z3.Lambda([j], v), lo, hi))   # empty when hi <= lo (axiom)

    def quantifier(self, kind, gen, st):
        if len(gen.generators) != 1:
            raise Unsupported("nested quantifier generator")
        g = gen.generators[0]
        it = self.eval(g.iter, st)
        # canonical bound-variable names: two evaluations of the same specification text give the same term
        # (named after the bound variable of the specification text, so that the same text evaluated at different
        #  nesting depths still yields the same term)
        nm = g.target.id if isinstance(g.target, ast.Name) else str(len(self.binder_marks))
        if any(str(v) == f"q%{nm}" for vs, _ in self.binder_marks for v in vs):
            nm = f"{nm}%{len(self.binder_marks)}"
        j = z3.Int(f"q%{nm}")
        saved_env = st.env
        st.env = dict(st.env)
        mark = len(st.pc)
        try:
            if isinstance(it, VOpaque) and it.desc == "allkeys":
                # every key / fingerprint (keys are Int-coded): unrestricted quantification
                self.bind_target(st, g.target, VInt(j))
                rng = z3.BoolVal(True)
            elif isinstance(it, VRange):
                # quantify over the value itself (clean triggers: a[k], not a[lo + k])
                self.bind_target(st, g.target, VInt(j))
                rng = z3.And(it.lo <= j, j < it.hi)
            else:
                n = self.bind_iteration(st, g.target, it, j)
                rng = z3.And(0 <= j, j < n)
            conds = [rng]
            st.pc.append(rng)
            self.binder_marks.append(([j], mark))
            try:
                for c in g.ifs:
                    cv = self.truth(st, self.eval(c, st))
                    conds.append(cv)
                    st.pc.append(cv)
                body = self.truth(st, self.eval(gen.elt, st))
            finally:
                self.binder_marks.pop()
        finally:
            del st.pc[mark:]
            st.env = saved_env
            self.flush_pending(st)
        # re-express over the loop variable itself for ranges (nicer triggers)
        if kind == "all":
            return VBool(z3.ForAll([j], z3.Implies(z3.And(*conds), body)))
        return VBool(z3.Exists([j], z3.And(*conds + [body])))

    # ---- construction / method calls ------------------------------------------------------
    def construct(self, st, cls, args, kwargs):
        if cls in EXC_NAMES or cls.endswith("Error"):
            return VOpaque("exception:" + cls)
        if cls not in CLASSES:
            raise Unsupported(f"construction of {cls} (no classinfo)")
        c = self.eng.contract_for(cls, "__init__")
        if c is None:
            raise Unsupported(f"construction of {cls}: no contract for __init__")
        t = TObj(cls)
        val = self.flat.fresh(t, "new_" + cls)
        oid = st.new_oid()
        st.heap[oid] = val
        ref = VRef(("obj", oid), cls)
        fi = self.repo.find_method(cls, "__init__")
        c = self.select_variant(st, c, cls, fi, ref, args, kwargs)
        self.call_contract(st, c, ref, args, kwargs, fi, fresh_self=True)
        return ref

    def call_classlevel(self, st, cls, name, args, kwargs):
        """ClassName.method(...) / cls.method(...) for classmethods and staticmethods"""
        if cls == "cls":
            cls = self.defcls
        c = self.eng.contract_for(cls, name)
        fi = self.repo.find_method(cls, name) if cls in self.repo.classes else None
        if c is None:
            raise Unsupported(f"call to {cls}.{name} without contract")
        return self.call_contract(st, c, VClass(cls), args, kwargs, fi)

    def call_method(self, st, recv, name, args, kwargs, after=None):
        cls = recv.cls
        mname = mangle(self.defcls, name) if self.defcls else name
        # resolution: MRO of the receiver class (after `after` for super())
        mro = self.repo.mro(cls) if cls in self.repo.classes else [cls]
        if after is not None:
            mro = mro[mro.index(after) + 1:] if after in mro else mro
        fi = None
        for k in mro:
            if k in self.repo.classes:
                cand = self.repo.classes[k].methods
                if name in cand:
                    fi = cand[name]
                    break
                if mname in cand:
                    fi = cand[mname]
                    break
                # private method: stored under its unmangled name in the defining class
                if name.startswith("__") and not name.endswith("__") and k == self.defcls and name in cand:
                    fi = cand[name]
                    break
        c = None
        mname_ = fi.name if fi is not None else name
        dispatched = self.repo.find_method(cls, mname_) if cls in self.repo.classes else None
        for k in mro:
            # a contract written for this very (body, receiver class) pair: "Base.method@Receiver"
            cand = CONTRACTS.get(f"{k}.{mname_}@{cls}")
            if cand is not None and (fi is None or fi.cls == k):
                c = cand
                break
            cand = CONTRACTS.get(f"{k}.{mname_}")
            if cand is None:
                continue
            # a plain contract is verified, for each receiver class in `contexts`, against the body that class
            # dispatches to; it covers this call only if that is the body being called
            if (not cand.contexts and fi is None) or (cls in cand.contexts and (fi is None or dispatched is fi)):
                c = cand
                break
        if c is not None:
            c = self.select_variant(st, c, cls, fi, recv, args, kwargs)
            return self.call_contract(st, c, recv, args, kwargs, fi)
        if fi is not None:
            expr = _as_expression(fi.node.body)
            if expr is not None and (fi.qualname in self.eng.inline or name.startswith("__") and name.endswith("__")):
                self.inlined.add(fi.qualname)
                env = self.bind_params(st, fi, None, recv, args, kwargs)
                return self.eval_in(st, expr, env, fi.module, fi.cls)
            if fi.kind == "method" and not (name.startswith("__") and name.endswith("__")) and after is None \
                    and self.repo.find_method(cls, fi.name) is fi:
                return self.inline_call(st, fi, recv, args, kwargs)
        raise Unsupported(f"call to {cls}.{name} without contract")

    def select_variant(self, st, c, cls, fi, recv, args, kwargs):
        """a second contract of the same body for another KIND of argument (keys "...@path...", "...@hex...", "...@be"):
        chosen when the argument bound to a bytes / stream / none-typed parameter is a path (text) or a hex text, or when
        a struct-format argument is not the format the contract is written for"""
        if fi is None:
            return c
        try:
            bound = self.bind_params(st, fi, c, recv, list(args), dict(kwargs))
        except Unsupported:
            return c
        base = c.key.split("@")[0]

        def pick(tag, ok=lambda c2: True):
            for k2, c2 in CONTRACTS.items():
                if k2.startswith(base + "@" + tag) and cls in c2.contexts and ok(c2):
                    return c2
            return None
        for p_, t_ in c.params.items():
            a_ = bound.get(p_)
            if isinstance(a_, VStructFmt) and str(t_).startswith("struct:") and str(t_) != "struct:" + a_.fmt:
                c = pick("", lambda c2: c2.params.get(p_) == "struct:" + a_.fmt) or c
        if any(isinstance(bound.get(p_), VSeq) and bound[p_].kind == "hex" and str(t_) == "none" for p_, t_ in c.params.items()):
            c = pick("hex") or c
        if any(isinstance(bound.get(p_), VStr) and str(t_) in ("bytes", "stream", "mmap", "none") for p_, t_ in c.params.items()):
            c = pick("path") or c
        return c

    def inline_call(self, st, fi, recv, args, kwargs):
        """a helper WITHOUT contract (typically one extracted from a function under contract): its body is executed in
        place, path by path, as part of the caller.  Loops inside it have no invariant -> outside the subset."""
        node = getattr(self, "call_node", None)
        if self.spec or self.binder_marks:
            raise Unsupported(f"call to {fi.qualname} without contract inside a specification or comprehension")
        stack = getattr(self, "inline_stack", [])
        if fi.qualname in stack or len(stack) >= 3:
            raise Unsupported(f"call to {fi.qualname} without contract (recursive or nested too deep to inline)")
        for d in fi.node.decorator_list:
            if ast.unparse(d) not in ("staticmethod", "classmethod"):
                raise Unsupported(f"call to {fi.qualname} without contract (decorated with @{ast.unparse(d)})")
        if fi.node.args.vararg or fi.node.args.kwarg:
            raise Unsupported(f"call to {fi.qualname} without contract (*args / **kwargs)")
        env = self.bind_params(st, fi, None, recv, args, kwargs)
        self.inlined.add(fi.qualname + " (helper without contract, body executed in place)")
        saved = (st.env, st.aliasof, self.module, self.defcls)
        arg_locs = list(getattr(self, "call_arg_locs", []) or [])
        pnames = [x.arg for x in fi.node.args.args]
        if fi.kind in ("method", "classmethod") and fi.cls is not None:
            pnames = pnames[1:]
        from .values import VFilePtr
        new_alias = {}
        for pn, loc in zip(pnames, arg_locs):
            if loc is not None and loc[0] in ("vfield", "elem") and isinstance(env.get(pn), (VSeq, VMap, VFilePtr)) \
                    and not (isinstance(env.get(pn), VSeq) and env[pn].kind == "bytes"):
                new_alias[pn] = loc
        st.env, st.aliasof = dict(env), new_alias
        self.module, self.defcls = fi.module, fi.cls
        self.inline_stack = stack + [fi.qualname]
        saved_exits, self.exits = self.exits, []
        saved_line = self.cur_line
        try:
            outs = self.exec_block(strip_docstring(fi.node.body), st)
            inner = self.exits
        finally:
            self.exits = saved_exits
            self.inline_stack = stack
            self.module, self.defcls = saved[2], saved[3]
            self.cur_line = saved_line
            st.env, st.aliasof = saved[0], saved[1]
        conts = []
        for cur, status in outs:
            if status != "normal":
                raise Unsupported(f"break/continue escaping {fi.qualname}")
            cur.env, cur.aliasof = dict(saved[0]), dict(saved[1])
            conts.append((cur, VNone()))
        for ex in inner:
            ex.st.env, ex.st.aliasof = dict(saved[0]), dict(saved[1])
            if ex.kind == "return":
                conts.append((ex.st, ex.value))
            else:
                self.exits.append(ex)            # an exception of the helper leaves the caller too
        if len(conts) == 1:
            cur, val = conts[0]
            if cur is not st:
                st.__dict__.update(cur.__dict__)
            return val
        raise NeedsFork(node, conts)

    def bind_params(self, st, fi, c, recv, args, kwargs):
        """environment for the callee: python binding rules on the real signature"""
        env = {}
        if fi is not None:
            a = fi.node.args
            names = [x.arg for x in a.args]
            defaults = [None] * (len(names) - len(a.defaults)) + list(a.defaults)
            pos = list(args)
            if fi.kind in ("method", "classmethod", "property", "setter") and fi.cls is not None:
                env[names[0]] = recv
                names, defaults = names[1:], defaults[1:]
            if len(pos) > len(names):
                raise Unsupported("too many positional arguments")
            for n, d in zip(names, defaults):
                if pos:
                    env[n] = pos.pop(0)
                elif n in kwargs:
                    env[n] = kwargs[n]
                elif d is not None:
                    env[n] = self.eval_in(st, d, {}, fi.module, fi.cls)
                else:
                    raise Unsupported(f"missing argument {n} for {fi.qualname}")
            for k in kwargs:
                if k not in names:
                    raise Unsupported(f"unexpected keyword {k}")
        else:
            names = list(c.params)
            if recv is not None:
                env["self"] = recv
            pos = list(args)
            for n in names:
                if pos:
                    env[n] = pos.pop(0)
                elif n in kwargs:
                    env[n] = kwargs[n]
                else:
                    raise Unsupported(f"missing argument {n} for {c.key}")
        if c is not None:
            for n, ts in c.params.items():
                if n in env:
                    env[n] = self.coerce(st, env[n], parse_type(ts), f"arg {n}") \
                        if not isinstance(parse_type(ts), TObj) else env[n]
        return env

    def spec_eval(self, st, text, env, what=""):
        """evaluate a specification expression (string) in state st with clause environment env"""
        try:
            tree = ast.parse(text, mode="eval").body
        except SyntaxError as e:
            raise Unsupported(f"contract syntax error in {what}: {e}")
        saved = (st.env, self.module, self.defcls)
        st.env = dict(env)
        self.module, self.defcls = None, None
        self.spec += 1
        try:
            return self.eval(tree, st)
        finally:
            self.spec -= 1
            st.env, self.module, self.defcls = saved

    def spec_truth(self, st, text, env, what=""):
        return self.truth(st, self.spec_eval(st, text, env, what))

    def call_contract(self, st, c, recv, args, kwargs, fi, fresh_self=False):
        self.trusted_used.add(c.key + (" [TRUSTED]" if c.trusted else ""))
        env = self.bind_params(st, fi, c, recv if not isinstance(recv, VClass) else (recv if fi is not None and fi.kind == "classmethod" else None), args, kwargs) \
            if not (isinstance(recv, VClass) and (fi is None or fi.kind == "staticmethod")) \
            else self.bind_params(st, fi, c, None, args, kwargs)
        if isinstance(recv, VClass) and fi is not None and fi.kind == "classmethod":
            env[fi.node.args.args[0].arg] = recv
        for gname in c.ghost:
            if gname not in env:
                ga = (self.contract.ghost_args.get(c.key, {}) if self.contract is not None else {}).get(gname)
                if gname in st.env:
                    env[gname] = st.env[gname]      # closure / ghost variables come from the caller's scope
                elif ga is not None:
                    # the caller's contract says which value the ghost parameter has at its call sites of this callee
                    env[gname] = self.spec_eval(st, ga, dict(getattr(self, "env0", {}), **st.env), f"{c.key}.ghost.{gname}")
                else:
                    raise Unsupported(f"call of {c.key}: closure variable {gname} not in scope")
        for lname, ltext in c.let:
            env[lname] = self.spec_eval(st, ltext, env, f"{c.key}.let.{lname}")
        self.apply_hints(st, "before_call:" + c.key, None)
        # 1. preconditions
        for name, text in c.requires:
            g = self.spec_truth(st, text, env, f"{c.key}.requires.{name}")
            self.oblige(st, f"L{self.cur_line}.call.{c.key}.requires.{name}", g, "call-pre")
        # 2. exceptional behaviour
        nots = []
        for exc, spec in c.raises.items():
            w = self.spec_truth(st, spec["when"], env, f"{c.key}.raises.{exc}")
            if self.binder_marks or self.spec:
                self.oblige(st, f"L{self.cur_line}.call.{c.key}.no_{exc}", z3.Not(w), "call-pre")
                if c.modifies:
                    raise Unsupported("call of a mutating function inside a comprehension")
            elif not self.dry:
                ex = st.fork()
                ex.pc.append(w)
                if spec.get("state", "unchanged") != "unchanged":
                    # the callee may have changed its frame before raising: havoc it, assume its exceptional clauses
                    before_x = ex.fork()
                    before_x.writelog = None
                    for path in c.modifies:
                        self.havoc_path(ex, path, env)
                    self.old_stack.append(before_x)
                    try:
                        for name, text in spec.get("ensures", []):
                            ex.pc.append(self.spec_truth(ex, text, env, f"{c.key}.raises.{exc}.{name}"))
                    finally:
                        self.old_stack.pop()
                self.exits.append(Exit("raise", ex, exc=exc, line=self.cur_line))
            if spec.get("must", True):
                nots.append(z3.Not(w))
        st.pc += nots
        # 3. frame: havoc what the callee may modify
        before = st.fork()
        before.writelog = None
        for path in c.modifies:
            loc_h = self.havoc_path(st, path, env)
            if loc_h is not None and loc_h[0] == "vfield":
                key = ("field", loc_h[1], loc_h[2])
                if path in c.rebinds:
                    self.detach_aliases(st, loc_h, stale=True)
                    st.rebindcnt[key] = st.rebindcnt.get(key, 0) + 1   # a new list object; old references stay valid
                else:
                    st.inplace[key] = st.inplace.get(key, 0) + 1       # the callee may have mutated the list in place
        # 4. result
        rt = parse_type(c.returns)
        if c.result_is is not None:
            res = self.spec_eval(st, c.result_is, env, f"{c.key}.result_is")
        else:
            res = self.fresh(st, rt, "ret_" + c.key.split(".")[-1])
        # 5. postconditions
        self.old_stack.append(before)
        saved_result = self.result
        self.result = res
        try:
            for name, text in c.ensures:
                st.pc.append(self.spec_truth(st, text, env, f"{c.key}.ensures.{name}"))
        finally:
            self.result = saved_result
            self.old_stack.pop()
        self.apply_hints(st, "after_call:" + c.key, res)
        return res

    def flush_pending(self, st):
        """definitions of named arrays that were introduced inside a binder for terms without bound variables: they
        are facts of the enclosing context (added once the outermost binder is left)"""
        pend = getattr(self, "pending_named", None)
        if pend and not self.binder_marks:
            for f in pend:
                if not any(z3.eq(f, p_) for p_ in st.pc):
                    st.pc.append(f)
            pend.clear()

    def apply_hints(self, st, where, ret):
        """sidecar ghost assertions of the function under verification: proved here, then assumed"""
        hints = self.contract.hints.get(where, ()) if self.contract is not None and not self.spec else ()
        if not hints or self.dry or self.binder_marks:
            return
        env = dict(getattr(self, "env0", {}))
        env.update(st.env)
        if where.startswith("after_call:"):
            env.update(getattr(self, "hint_lets", {}))       # ghost names introduced by the before_call hints
        else:
            self.hint_lets = {}
        if ret is not None:
            env["_ret"] = ret
        for name, text in hints:
            if name.startswith("let:"):
                # a ghost name for a value (evaluated outside any binder: a list expression gets a NAMED array)
                env[name[4:]] = self.spec_eval(st, text, env, f"{self.contract.key}.hint.{name}")
                self.hint_lets[name[4:]] = env[name[4:]]
                continue
            g = self.spec_truth(st, text, env, f"{self.contract.key}.hint.{name}")
            self.oblige(st, f"L{self.cur_line}.hint.{name}", g, "hint")
            st.pc.append(g)

    def havoc_path(self, st, path, env):
        if path == "fs":
            from . import streams
            d, l, e = streams.fs_state(st)
            st.fs = (z3.Const(fresh_name("fs_data"), d.sort()), z3.Const(fresh_name("fs_len"), l.sort()),
                     z3.Const(fresh_name("fs_exists"), e.sort()))
            st.nwrites[0] += 1
            return None
        tree = ast.parse(path, mode="eval").body
        saved = (st.env, self.module, self.defcls)
        st.env = dict(env)
        self.module, self.defcls = None, None
        self.spec += 1
        try:
            if isinstance(tree, ast.Name):
                v = st.env.get(tree.id)
                if isinstance(v, VStream):
                    # a stream argument the callee writes to: unknown new content (its postcondition says which)
                    content = self.flat.fresh(parse_type("bytes"), "hv_written")
                    st.pc += self.flat.facts(parse_type("bytes"), content)
                    st.streams[v.sid] = content
                    st.nwrites[0] += 1
                    return None
                if not isinstance(v, VRef):
                    raise Unsupported(f"modifies {path}: not an object")
                loc = v.loc
                cur = self.deref(st, v)
            else:
                loc = self.loc_of(tree, st)
                cur = self.read(st, loc)
        finally:
            self.spec -= 1
            st.env, self.module, self.defcls = saved
        t = self.type_of(cur)
        nv = self.flat.fresh(t, "hv_" + path.replace("self.", ""))
        st.pc += self.flat.facts(t, nv)
        self.write(st, loc, nv)
        return loc if isinstance(cur, VSeq) else None

    # ---- value methods (sequences, maps, strings, struct formats) ------------------------------
    def call_value_method(self, st, recv, name, args, kwargs, node):
        if isinstance(recv, VSeq):
            if name == "index":
                raise Unsupported("list.index")
            if name == "count":
                raise Unsupported("list.count")
            pass
        if isinstance(recv, VMap):
            if name == "values" and not args:
                o = VOpaque("dictvalues")
                o.map = recv
                return o
            if name == "get":
                k = args[0].t
                t = TOpt(TInt())
                return VOpt(z3.Not(recv.dom[k]), VInt(recv.val[k]))
        if isinstance(recv, VStr):
            if name == "lower":
                if recv.lit is not None:
                    return VStr.const(recv.lit.lower())
                return VStr(str_lower(recv.t))
            if name == "encode":
                from . import lib_models
                return lib_models.key_encode(self, st, recv)
            if name == "isascii":
                from . import lib_models
                return VBool(lib_models.is_ascii(recv.t))
            if name == "name_attr":
                pass
            if name in ("exists", "expanduser", "resolve"):
                from . import streams
                self.lib_used.add("pathlib: Path(p).exists() reads the modelled file system; expanduser()/resolve() "
                                  "give the canonical path (an idempotent uninterpreted function of the path text)")
                if name == "exists":
                    return VBool(streams.fs_state(st)[2][streams.rpath(recv.t)])
                if name == "resolve":
                    return VStr(streams.rpath(recv.t))
                return recv
        from . import lib_models
        return lib_models.value_method(self, st, recv, name, args, kwargs, node)

    def table_of(self, st, loc):
        """(table location, table value, bucket index) when loc is a bucket of a jagged int table"""
        if loc[0] == "elem":
            try:
                parent = self.read(st, loc[1])
            except Unsupported:
                return None
            if isinstance(parent, VSeq) and isinstance(parent.et, TSeq) and isinstance(parent.et.elem, TInt):
                return loc[1], parent, loc[2]
        return None

    def name_table(self, st, tabloc):
        """give the current value of a table fresh constant names (so that count terms over it are valid
        quantifier triggers whatever the index expressions of the update looked like)"""
        cur = self.read(st, tabloc)
        comps = []
        for c in cur.comps:
            if z3.is_const(c) and c.decl().kind() == z3.Z3_OP_UNINTERPRETED:
                comps.append(c)
            else:
                nm = z3.Const(fresh_name("tab"), c.sort())
                st.pc.append(nm == c)
                comps.append(nm)
        ln = cur.ln
        nv = VSeq(comps, ln, cur.et, cur.kind)
        wl = st.writelog
        st.writelog = None
        try:
            self.write(st, tabloc, nv, structural=False)
        finally:
            st.writelog = wl
        return nv

    def seq_mutate(self, st, loc, cur: VSeq, name, args):
        key = self.epoch_key(loc) if loc[0] in ("elem", "vfield") else loc
        if loc[0] == "vfield":
            key = ("field", loc[1], loc[2])
        st.inplace[key] = st.inplace.get(key, 0) + 1
        self.check_rebinds(st, key)
        tab = self.table_of(st, loc)
        if tab is not None and name in ("append", "remove"):
            from . import tables
            before = tab[1]
            res = self._seq_mutate(st, loc, cur, name, args)
            after = self.name_table(st, tab[0])
            x = as_int(args[0])
            facts = tables.fact_bucket_append(before, after, tab[2], x) if name == "append" \
                else tables.fact_bucket_remove(before, after, tab[2], x)
            st.pc += facts
            self.lib_used.add("T-occ2: occurrence counts of a list-of-lists table (tcount/tsize) with update facts for "
                              "bucket append / slot overwrite / list.remove / appending an empty bucket; every axiom and "
                              "update fact is re-validated on random tables by CPython on each run")
            return res
        if isinstance(cur.et, TSeq) and isinstance(cur.et.elem, TInt) and name == "append" and isinstance(args[0], VSeq) \
                and z3.is_int_value(z3.simplify(args[0].ln)) and z3.simplify(args[0].ln).as_long() == 0:
            from . import tables
            res = self._seq_mutate(st, loc, cur, name, args)
            st.pc += tables.fact_outer_append_empty(cur, self.name_table(st, loc))
            return res
        if isinstance(cur.et, TSeq) and isinstance(cur.et.elem, TInt) and name == "append" and isinstance(args[0], VSeq) \
                and isinstance(args[0].et, TInt):
            from . import tables
            res = self._seq_mutate(st, loc, cur, name, args)
            st.pc += tables.fact_outer_append(cur, self.name_table(st, loc), args[0])
            return res
        return self._seq_mutate(st, loc, cur, name, args)

    def _seq_mutate(self, st, loc, cur: VSeq, name, args):
        if name == "append" and isinstance(cur.et, TInt) and cur.kind == "list" and isinstance(args[0], (VTuple, VStruct, VRef, VSeq)) \
                and z3.is_int_value(z3.simplify(cur.ln)) and z3.simplify(cur.ln).as_long() == 0:
            # `[]` gets its element type from the first append
            et = self.type_of(self.deref(st, args[0]))
            cur = VSeq([z3.Const(fresh_name("nil"), z3.ArraySort(z3.IntSort(), srt)) for srt in self.flat.sorts(et)],
                       z3.IntVal(0), et, "list")
        if name == "append":
            v = self.coerce(st, args[0], cur.et, "append", typed_store=cur.kind)
            terms = self.flat.pack(cur.et, v)
            nv = VSeq([z3.Store(a, cur.ln, t) for a, t in zip(cur.comps, terms)], cur.ln + 1, cur.et, cur.kind)
            if isinstance(cur.et, TInt) and cur.kind == "list" and not self.spec:
                from . import tables
                nm = z3.Const(fresh_name("lst"), nv.comps[0].sort())
                st.pc.append(nm == nv.comps[0])
                nv = VSeq([nm], nv.ln, nv.et, nv.kind)
                st.pc += tables.fact_list_append(cur, nv, as_int(v))
            self.write(st, loc, nv)
            return VNone()
        if name == "pop":
            if len(args) == 1 and z3.is_int_value(as_int(args[0])) and as_int(args[0]).as_long() == 0:
                self.oblige(st, f"L{self.cur_line}.pop_nonempty", cur.ln > 0)
                j = z3.Int(fresh_name("p"))
                nv = VSeq([z3.Lambda([j], a[j + 1]) for a in cur.comps], cur.ln - 1, cur.et, cur.kind)
                first = self.seq_get(cur, z3.IntVal(0))
                self.write(st, loc, nv)
                return first
            if not args:
                self.oblige(st, f"L{self.cur_line}.pop_nonempty", cur.ln > 0)
                last = self.seq_get(cur, cur.ln - 1)
                self.write(st, loc, VSeq(cur.comps, cur.ln - 1, cur.et, cur.kind))
                return last
            raise Unsupported("list.pop(i)")
        if name == "sort" and not args and isinstance(cur.et, TInt) and cur.kind == "list":
            # x.sort(): x becomes sorted(x) (same list object)
            from . import lib_models
            self.write(st, loc, lib_models.sorted_model(self, st, cur, self.cur_line))
            return VNone()
        if name == "extend" or name == "fromlist":
            other = args[0]
            if not isinstance(other, VSeq):
                raise Unsupported("extend with non-sequence")
            if not self.spec and isinstance(cur.et, TInt) and cur.kind.startswith("array:"):
                k = z3.Int(fresh_name("x"))
                cs = []
                if cur.et.lo is not None:
                    cs.append(other.comps[0][k] >= cur.et.lo)
                if cur.et.hi is not None:
                    cs.append(other.comps[0][k] <= cur.et.hi)
                self.oblige(st, f"L{self.cur_line}.typed_extend_in_range",
                            z3.ForAll([k], z3.Implies(z3.And(0 <= k, k < other.ln), z3.And(*cs))))
            nv = self.seq_concat(st, cur, other)
            if isinstance(cur.et, TInt) and cur.kind == "list" and isinstance(other.et, TInt):
                from . import tables, lib_models
                nv = lib_models.named_array(self, st, nv)
                st.pc += tables.fact_list_extend(cur, lib_models.named_array(self, st, other), nv)
            self.write(st, loc, nv)
            return VNone()
        if name == "remove":
            # removes the first occurrence: result described by a fresh sequence
            x = as_int(args[0])
            if not isinstance(cur.et, TInt):
                return self.seq_remove_struct(st, loc, cur, args[0])
            w = z3.Int(fresh_name("w"))
            i = z3.Int(fresh_name("r"))
            from . import tables
            self.oblige(st, f"L{self.cur_line}.remove_present", tables.lcnt(cur.comps[0], z3.IntVal(0), cur.ln, x) >= 1)
            st.pc.append(z3.And(0 <= w, w < cur.ln, cur.comps[0][w] == x,
                                z3.ForAll([i], z3.Implies(z3.And(0 <= i, i < w), cur.comps[0][i] != x))))
            j = z3.Int(fresh_name("p"))
            nv = VSeq([z3.Lambda([j], z3.If(j < w, a[j], a[j + 1])) for a in cur.comps], cur.ln - 1, cur.et, cur.kind)
            from . import lib_models
            nv = lib_models.named_array(self, st, nv)
            fq = z3.Int("f!lr")
            st.pc.append(z3.ForAll([fq], tables.lcnt(nv.comps[0], 0, nv.ln, fq)
                                   == tables.lcnt(cur.comps[0], 0, cur.ln, fq) - tables.ind(fq == x),
                                   patterns=[tables.lcnt(nv.comps[0], 0, nv.ln, fq)]))
            self.write(st, loc, nv)
            return VNone()
        raise Unsupported(f"sequence method {name}")

    def seq_remove_struct(self, st, loc, cur, item):
        # list.remove(obj) where obj is a reference to an element of this very list
        if isinstance(item, VRef) and item.loc[0] == "elem" and item.loc[1] == loc:
            w = item.loc[2]
            j = z3.Int(fresh_name("p"))
            nv = VSeq([z3.Lambda([j], z3.If(j < w, a[j], a[j + 1])) for a in cur.comps], cur.ln - 1, cur.et, cur.kind)
            self.lib_used.add("list.remove(x) with x an element reference: removes that element "
                              "(object equality is identity for classes without __eq__)")
            self.write(st, loc, nv)
            return VNone()
        raise Unsupported("list.remove of a non-element object")

    def map_mutate(self, st, loc, cur: VMap, name, args):
        if name == "pop":
            k = args[0].t
            had = cur.dom[k]
            nv = VMap(z3.Store(cur.dom, k, z3.BoolVal(False)), cur.val, z3.If(had, cur.card - 1, cur.card))
            self.write(st, loc, nv)
            return VOpt(z3.Not(had), VInt(cur.val[k]))
        raise Unsupported(f"dict method {name}")

    def key_bytes(self, st, key, how):
        from . import lib_models
        return lib_models.key_bytes(self, st, key, how)

    def call_hashfunc(self, st, fv, args, kwargs):
        from . import lib_models
        return lib_models.call_hashfunc(self, st, fv, args, kwargs)

    def call_builtin(self, st, name, args, kwargs, node):
        from . import lib_models
        return lib_models.call_builtin(self, st, name, args, kwargs, node)

    # ================================================================== statements ====
    def exec_block(self, stmts, st):
        """returns list of (state, status), status in normal|break|continue; returns and raises are
        recorded in self.exits"""
        escaped = []
        states = [st]
        for s in stmts:
            nxt = []
            for cur in states:
                for x, status in self.exec_stmt(s, cur):
                    self.pointwise_check(x, s)
                    if status == "normal":
                        nxt.append(x)
                    else:
                        escaped.append((x, status))
            states = nxt
            if not states:
                break
        return [(x, "normal") for x in states] + escaped

    def pointwise_check(self, st, s):
        c = self.contract
        if c is None or not c.pointwise or self.dry or self.spec or getattr(self, "in_inline", 0):
            return
        if isinstance(s, (ast.For, ast.While, ast.If, ast.With)):
            return            # compound statements: their inner statements are the points
        env = dict(getattr(self, "env0", {}))
        for name, text in c.pointwise:
            g = self.spec_truth(st, text, env, f"{c.key}.pointwise.{name}")
            self.oblige(st, f"after_L{getattr(s, 'lineno', 0)}.pointwise.{name}", g, "pointwise")

    def exec_stmt(self, s, st):
        if hasattr(s, "lineno"):
            self.cur_line = s.lineno
        m = getattr(self, "s_" + type(s).__name__, None)
        if m is None:
            raise Unsupported(f"statement {type(s).__name__} at line {s.lineno}")
        try:
            return m(s, st)
        except NeedsFork as nf:
            raise Unsupported(str(nf) + f" (line {getattr(s, 'lineno', 0)})")

    def s_Delete(self, s, st):
        for t in s.targets:
            if not (isinstance(t, ast.Subscript) and not isinstance(t.slice, ast.Slice)):
                raise Unsupported(f"del of something that is not d[key] at line {s.lineno}")
            loc = self.try_loc(t.value, st)
            cur = self.read(st, loc) if loc is not None else None
            if not isinstance(cur, VMap):
                raise Unsupported(f"del on something that is not a dict at line {s.lineno}")
            k = self.eval(t.slice, st).t
            self.oblige(st, f"L{s.lineno}.del_key_present", cur.dom[k], "safety")      # otherwise KeyError
            self.write(st, loc, VMap(z3.Store(cur.dom, k, z3.BoolVal(False)), cur.val, cur.card - 1))
        return [(st, "normal")]

    def s_Pass(self, s, st):
        return [(st, "normal")]

    def s_Expr(self, s, st):
        if isinstance(s.value, ast.Constant):
            return [(st, "normal")]
        try:
            self.eval(s.value, st)
        except NeedsFork as nf:
            if nf.node is not s.value:
                raise Unsupported(str(nf))
            return [(cur, "normal") for cur, _ in nf.conts]
        return [(st, "normal")]

    def s_Assert(self, s, st):
        c = self.cond(s.test, st)
        self.oblige(st, f"L{s.lineno}.assert", c, "assert")
        st.pc.append(c)
        return [(st, "normal")]

    def s_Return(self, s, st):
        if isinstance(s.value, ast.IfExp):
            node = ast.If(test=s.value.test, body=[ast.copy_location(ast.Return(value=s.value.body), s)],
                          orelse=[ast.copy_location(ast.Return(value=s.value.orelse), s)])
            return self.exec_stmt(ast.copy_location(node, s), st)
        try:
            v = self.eval(s.value, st) if s.value is not None else VNone()
        except NeedsFork as nf:
            if nf.node is not s.value:
                raise Unsupported(str(nf))
            for cur, val in nf.conts:
                if not self.dry or getattr(self, "inline_stack", None):
                    self.exits.append(Exit("return", cur, value=val, line=s.lineno))
            return []
        if not self.dry or getattr(self, "inline_stack", None):
            self.exits.append(Exit("return", st, value=v, line=s.lineno))
        return []

    def s_Raise(self, s, st):
        exc = None
        e = s.exc
        if isinstance(e, ast.Call):
            e = e.func
        if isinstance(e, ast.Name):
            exc = e.id
        elif isinstance(e, ast.Attribute):
            exc = e.attr
        if exc is None:
            raise Unsupported("raise of a non-class expression")
        if not self.dry:
            self.exits.append(Exit("raise", st, exc=exc, line=s.lineno))
        return []

    def s_Break(self, s, st):
        return [(st, "break")]

    def s_Continue(self, s, st):
        return [(st, "continue")]

    def s_If(self, s, st):
        try:
            c = self.cond(s.test, st)
        except NeedsFork as nf:
            # `if helper(...):` / `if not helper(...):` with a helper that returns along several paths: each of its
            # paths continues with its own truth value
            neg = isinstance(s.test, ast.UnaryOp) and isinstance(s.test.op, ast.Not)
            if nf.node is not (s.test.operand if neg else s.test):
                raise Unsupported(str(nf))
            out = []
            for cur, val in nf.conts:
                t = self.truth(cur, val)
                t = z3.Not(t) if neg else t
                a = cur.fork()
                a.pc.append(t)
                cur.pc.append(z3.Not(t))
                if self.feasible(a):
                    out += self.exec_block(s.body, a)
                if self.feasible(cur):
                    out += self.exec_block(s.orelse, cur) if s.orelse else [(cur, "normal")]
            return out
        cs = z3.simplify(c)
        if z3.is_true(cs):
            return self.exec_block(s.body, st)
        if z3.is_false(cs):
            return self.exec_block(s.orelse, st) if s.orelse else [(st, "normal")]
        a = st.fork()
        a.pc.append(c)
        b = st
        b.pc.append(z3.Not(c))
        out = []
        # infeasible branches are pruned (sound: `unsat` means no execution reaches the branch)
        if self.feasible(a):
            out += self.exec_block(s.body, a)
        if self.feasible(b):
            out += self.exec_block(s.orelse, b) if s.orelse else [(b, "normal")]
        return out

    def feasible(self, st):
        if self.dry:
            return True
        s = z3.Solver()
        s.set("timeout", 300)
        s.set("auto_config", False)
        s.set("smt.mbqi", False)
        for p in st.pc:
            if not z3.is_quantifier(p):
                s.add(p)
        from .verify import guarded_check
        return guarded_check(s, 300) != z3.unsat

    def s_AnnAssign(self, s, st):
        if s.value is None:
            return [(st, "normal")]
        v = self.eval(s.value, st)
        return self.assign(st, s.target, v)

    def s_Assign(self, s, st):
        if isinstance(s.value, ast.IfExp):
            # `x = a if c else b` is executed as the statement `if c: x = a  else: x = b` (separate paths: operands of
            # different shapes need no merge and side effects in an operand are ordinary statements)
            node = ast.If(test=s.value.test,
                          body=[ast.copy_location(ast.Assign(targets=s.targets, value=s.value.body), s)],
                          orelse=[ast.copy_location(ast.Assign(targets=s.targets, value=s.value.orelse), s)])
            return self.exec_stmt(ast.copy_location(node, s), st)
        if len(s.targets) == 1 and isinstance(s.targets[0], ast.Name) and not self.spec and \
                (isinstance(s.value, (ast.Attribute, ast.Name))
                 or (isinstance(s.value, ast.Subscript) and not isinstance(s.value.slice, ast.Slice))):
            # `x = obj.field` / `x = obj.field[i]` where that holds a list / array / dict: x denotes the same OBJECT
            loc = self.try_loc(s.value, st) if not isinstance(s.value, ast.Subscript) else self.loc_of_list_element(s.value, st)
            if loc is not None and loc[0] == "elem":
                cur = self.read(st, loc)
                self.write(st, ("var", s.targets[0].id), cur)
                st.aliasof[s.targets[0].id] = loc
                key = self.epoch_key(loc)
                st.aliasep[s.targets[0].id] = (key, st.epochs.get(key, 0))
                return [(st, "normal")]
            if loc is not None and loc[0] == "vfield":
                cur = self.read(st, loc)
                from .values import VFilePtr
                if (isinstance(cur, VSeq) and cur.kind != "bytes") or isinstance(cur, (VMap, VFilePtr)):
                    self.eval(s.value, st)
                    self.write(st, ("var", s.targets[0].id), cur)
                    st.aliasof[s.targets[0].id] = loc
                    return [(st, "normal")]
        try:
            pairs = [(st, self.eval(s.value, st))]
        except NeedsFork as nf:
            if nf.node is not s.value:
                raise Unsupported(str(nf))
            pairs = nf.conts
        out = []
        for st1, v in pairs:
            states = [(st1, "normal")]
            for t in s.targets:
                nxt = []
                for cur, _ in states:
                    nxt += self.assign(cur, t, v)
                states = nxt
            out += states
        return out

    def assign(self, st, target, v):
        if isinstance(target, ast.Name):
            if isinstance(v, VRef):
                st.env[target.id] = v
            else:
                if self.contract is not None and target.id in self.contract.locals and isinstance(v, VSeq):
                    v = self.coerce(st, v, parse_type(self.contract.locals[target.id]), f"local {target.id}")
                self.write(st, ("var", target.id), v)
            return [(st, "normal")]
        if isinstance(target, (ast.Tuple, ast.List)):
            if isinstance(v, VSeq):
                v = VTuple([self.index(st, v, VInt(i)) for i in range(len(target.elts))])
            if not isinstance(v, VTuple) or len(v.items) != len(target.elts):
                raise Unsupported("tuple assignment mismatch")
            states = [(st, "normal")]
            for t, x in zip(target.elts, v.items):
                nxt = []
                for cur, _ in states:
                    nxt += self.assign(cur, t, x)
                states = nxt
            return states
        if isinstance(target, ast.Attribute):
            base = self.eval(target.value, st)
            if not isinstance(base, VRef):
                raise Unsupported("attribute assignment on non-object")
            name = mangle(self.defcls, target.attr) if self.defcls else target.attr
            obj = self.deref(st, base)
            if name in obj.fields:
                self.detach_aliases(st, ("vfield", base.loc, name))
                if isinstance(v, VSeq):
                    k_ = ("field", base.loc, name)
                    st.rebindcnt[k_] = st.rebindcnt.get(k_, 0) + 1
                    if getattr(v, "_alias", None) is None:
                        st.rebound.add(k_)
                    else:
                        st.rebound.discard(k_)
                self.write(st, ("vfield", base.loc, name), v)
                return [(st, "normal")]
            setter = self.repo.find_setter(base.cls, target.attr) if base.cls in self.repo.classes else None
            if setter is not None:
                return self.inline_setter(st, base, setter, v)
            raise Unsupported(f"assignment to undeclared attribute {target.attr} of {base.cls}")
        if isinstance(target, ast.Subscript):
            if isinstance(target.slice, ast.Slice):
                raise Unsupported("slice assignment")
            # dict store?
            ploc = self.try_loc(target.value, st)
            if ploc is not None:
                cur = self.read(st, ploc)
                if isinstance(cur, VMap):
                    k = self.eval(target.slice, st).t
                    had = cur.dom[k]
                    nv = VMap(z3.Store(cur.dom, k, z3.BoolVal(True)), z3.Store(cur.val, k, as_int(v)),
                              z3.If(had, cur.card, cur.card + 1))
                    self.write(st, ploc, nv)
                    return [(st, "normal")]
                if isinstance(cur, (VRef, VStruct)):
                    # obj[idx] = v  -> __setitem__
                    idx = self.eval(target.slice, st)
                    self.call_method(st, cur if isinstance(cur, VRef) else VRef(ploc, cur.cls), "__setitem__", [idx, v], {})
                    return [(st, "normal")]
            else:
                base = self.eval(target.value, st)
                if isinstance(base, VRef):
                    idx = self.eval(target.slice, st)
                    self.call_method(st, base, "__setitem__", [idx, v], {})
                    return [(st, "normal")]
            loc = self.loc_of(target, st)
            tab = self.table_of(st, loc[1]) if loc[0] == "elem" else None
            if tab is not None:
                from . import tables
                before = tab[1]
                xold = as_int(self.read(st, loc))
                self.write(st, loc, v, structural=False)
                st.pc += tables.fact_slot_overwrite(before, self.name_table(st, tab[0]), tab[2], loc[2], xold, as_int(v))
                return [(st, "normal")]
            self.write(st, loc, v, structural=False)
            return [(st, "normal")]
        raise Unsupported("assignment target")

    def loc_of_list_element(self, node, st):
        """location of  <list field>[i]  when that element is itself a list (a bucket of a table); None otherwise"""
        try:
            parent = self.loc_of(node.value, st)
        except Unsupported:
            return None
        if parent[0] != "vfield":
            return None
        outer = self.read(st, parent)
        if not (isinstance(outer, VSeq) and isinstance(outer.et, TSeq)):
            return None
        return self.loc_of(node, st)        # (index-in-range obligation included)

    def inline_setter(self, st, base, setter, v):
        key = f"{setter.cls}.{setter.name}.setter"
        c = CONTRACTS.get(key)
        if c is not None:
            self.call_contract(st, c, base, [v], {}, setter)
            return [(st, "normal")]
        self.inlined.add(key)
        self.in_inline = getattr(self, "in_inline", 0) + 1
        body = strip_docstring(setter.node.body)
        pname = setter.node.args.args[1].arg
        saved = (st.env, self.module, self.defcls)
        st.env = {"self": base, pname: v}
        self.module, self.defcls = setter.module, setter.cls
        saved_exits = self.exits
        self.exits = []
        try:
            outs = self.exec_block(body, st)
            inner_exits = self.exits
        finally:
            self.in_inline -= 1
            self.exits = saved_exits
            self.module, self.defcls = saved[1], saved[2]
        res = []
        for cur, status in outs:
            cur.env = dict(saved[0])
            res.append((cur, "normal"))
        for ex in inner_exits:
            if ex.kind == "return":
                ex.st.env = dict(saved[0])
                res.append((ex.st, "normal"))
            else:
                ex.st.env = dict(saved[0])
                self.exits.append(ex)
        return res

    def s_AugAssign(self, s, st):
        t = s.target
        if isinstance(t, ast.Name):
            if t.id in st.aliasof:
                raise Unsupported("augmented assignment to a local that denotes a list held in a field (in-place extension)")
            cur = self.eval(t, st)
            v = self.binop(st, s.op, cur, self.eval(s.value, st))
            return self.assign(st, t, v)
        if isinstance(t, ast.Attribute):
            cur = self.eval(t, st)
            v = self.binop(st, s.op, cur, self.eval(s.value, st))
            return self.assign(st, t, v)
        if isinstance(t, ast.Subscript):
            loc = self.loc_of(t, st)
            cur = self.read(st, loc)
            v = self.binop(st, s.op, cur, self.eval(s.value, st))
            self.write(st, loc, v, structural=False)
            return [(st, "normal")]
        raise Unsupported("augmented assignment target")

    # ---- loops ---------------------------------------------------------------------------------
    def loop_spec(self, ordinal, s):
        """the invariant the contract gives for the loop with this syntactic ordinal.  A loop the contract does not
        mention (the code has a loop the contract was not written for) is outside the subset: executing it with an
        empty invariant would report unprovable obligations for code that may be perfectly right."""
        c = self.contract
        if c is None:
            raise Unsupported(f"loop at line {getattr(s, 'lineno', 0)} in code without a contract (no invariant)")
        if getattr(self, "inline_stack", None):
            raise Unsupported(f"loop at line {getattr(s, 'lineno', 0)} inside {self.inline_stack[-1]}, a helper without "
                              "contract (the invariants of the caller's contract are written for the caller's own loops)")
        if ordinal not in c.loops:
            if c.kind == "lemma" or getattr(self, "in_inline", 0):
                raise Unsupported(f"loop at line {getattr(s, 'lineno', 0)}: no invariant available")
            raise Unsupported(f"loop {ordinal} at line {getattr(s, 'lineno', 0)} of {c.key} has no invariant in the contract "
                              f"(the contract annotates loops {sorted(c.loops)})")
        if c.loops[ordinal].get("unreached"):
            raise Unsupported(f"loop {ordinal} at line {getattr(s, 'lineno', 0)} of {c.key}: the contract says this loop is not "
                              "reached for the kind of argument it covers")
        return c.loops[ordinal]

    def s_For(self, s, st):
        if s.orelse:
            raise Unsupported("for-else")
        # syntactic ordinal of the loop in the function (source order), the same on every path
        ordinal = getattr(self, "loop_ordinals", {}).get(id(s))
        if ordinal is None:
            ordinal = self.loop_ord
            self.loop_ord += 1
        spec = self.loop_spec(ordinal, s)
        # the iterable: evaluated once; sequences reachable through a location are re-read (live)
        it_loc = None
        it_node = s.iter
        enum = False
        if isinstance(it_node, ast.Call) and isinstance(it_node.func, ast.Name) and it_node.func.id == "enumerate" \
                and len(it_node.args) == 1 and not it_node.keywords:
            enum = True
            it_node = it_node.args[0]
        zip_nodes = None
        if isinstance(it_node, ast.Call) and isinstance(it_node.func, ast.Name) and it_node.func.id == "zip" \
                and it_node.args and not it_node.keywords:
            zip_nodes = list(it_node.args)
            parts0 = [self.eval(a, st) for a in zip_nodes]
            if not all(isinstance(p, VSeq) for p in parts0):
                raise Unsupported("zip of something that is not a sequence")
            zip_locs = [self.try_loc(a, st) for a in zip_nodes]
            it0 = None
        else:
            it0 = self.eval(it_node, st)
            if isinstance(it0, VSeq):
                it_loc = self.try_loc(it_node, st)

        def live(state, v0, loc):
            v = self.read(state, loc) if loc is not None else v0
            if isinstance(v, VSeq):
                v = VSeq(v.comps, v.ln, v.et, v.kind)
                v._loc = loc
            return v

        def current_iterable(state):
            if zip_nodes is not None:
                from .values import VZip
                z = VZip([live(state, p, l) for p, l in zip(parts0, zip_locs)], zip_locs)
                return VEnum(z, None) if enum else z
            v = live(state, it0, it_loc)
            return VEnum(v, it_loc) if enum else v

        # 1. dry run to find what the body may write
        wl = self.dry_run_writes(s, st, current_iterable)
        # 2. invariant at entry (zero iterations done)
        entry = st.fork()
        entry.writelog = None
        self.loop_entry.append(entry)
        try:
            i0 = z3.IntVal(0)
            env0 = dict(st.env)
            env0["_i"] = VInt(i0)
            n0 = self.trip_count(st, current_iterable(st))
            env0["_n"] = VInt(n0)
            for name, text in spec["invariant"]:
                g = self.spec_truth(st, text, env0, f"loop{ordinal}.{name}")
                self.oblige(st, f"loop{ordinal}.init.{name}", g, "loop-init")
            # 3. havoc
            for root, kind in wl.items():
                self.havoc_root(st, root, kind)
            ivar = z3.Int(fresh_name("_i"))
            it_h = current_iterable(st)
            n = self.trip_count(st, it_h)
            st.pc.append(z3.And(0 <= ivar, ivar <= n))
            envh = dict(st.env)
            envh["_i"] = VInt(ivar)
            envh["_n"] = VInt(n)
            for name, text in spec["invariant"]:
                st.pc.append(self.spec_truth(st, text, envh, f"loop{ordinal}.{name}"))
            # 4a. one arbitrary iteration
            body_st = st.fork()
            body_st.pc.append(ivar < n)
            self.bind_iteration(body_st, s.target, it_h, ivar)
            outs = self.exec_block(s.body, body_st)
            after = []
            for cur, status in outs:
                if status == "break":
                    after.append(cur)
                    continue
                envn = dict(cur.env)
                envn["_i"] = VInt(ivar + 1)
                n_after = self.trip_count(cur, current_iterable(cur))
                envn["_n"] = VInt(n_after)
                for name, text in spec["invariant"]:
                    g = self.spec_truth(cur, text, envn, f"loop{ordinal}.{name}")
                    self.oblige(cur, f"loop{ordinal}.preserve.{name}", g, "loop-preserve")
                self.oblige(cur, f"loop{ordinal}.preserve.index_bound", ivar + 1 <= n_after, "loop-preserve")
            # 4b. exit
            st.pc.append(ivar >= n)
            st.env["_loop_i"] = VInt(ivar)
        finally:
            self.loop_entry.pop()
        return [(st, "normal")] + [(x, "normal") for x in after]

    def trip_count(self, st, it):
        if isinstance(it, VRange):
            return z3.simplify(z3.If(it.hi > it.lo, it.hi - it.lo, z3.IntVal(0)))
        from .values import VZip
        if isinstance(it, VEnum):
            return self.zip_len(it.seq) if isinstance(it.seq, VZip) else it.seq.ln
        if isinstance(it, VZip):
            return self.zip_len(it)
        if isinstance(it, VSeq):
            return it.ln
        raise Unsupported(f"iteration over {it}")

    def dry_run_writes(self, s, st, current_iterable):
        d = st.fork()
        d.writelog = []
        self.dry += 1
        saved_ord = self.loop_ord
        saved_exits = self.exits
        self.exits = []
        try:
            iv = z3.Int(fresh_name("_dry"))
            self.bind_iteration(d, s.target, current_iterable(d), iv)
            log = d.writelog
            fs0 = d.fs
            self.exec_block(s.body, d)
        finally:
            self.dry -= 1
            self.loop_ord = saved_ord
            self.exits = saved_exits
        if d.fs is not fs0:
            raise Unsupported("a loop body that writes to the file system (no loop frame for the file-system model)")
        wl = {}
        targets = {n.id for n in ast.walk(s.target) if isinstance(n, ast.Name)}
        for root, loc, structural in log:
            if root[0] == "var":
                if root[1] in targets or root[1] not in st.env:
                    continue
                key = root
                whole = structural or loc == root
            elif root[0] == "obj":
                # find the field
                l2 = loc
                chain = []
                while l2[0] in ("elem", "vfield"):
                    chain.append(l2)
                    l2 = l2[1]
                if root[1] not in st.heap:
                    continue                      # object allocated inside the loop body
                fl = [c for c in chain if c[0] == "vfield" and c[1] == root]
                if not fl:
                    key, whole = root, True
                else:
                    key = fl[-1]
                    whole = structural or loc == key
            elif root[0] == "stream":
                key, whole = root, True        # bytes appended to a stream inside the loop: its content is havoc'd
            else:
                continue
            wl[key] = wl.get(key, False) or whole
        return wl

    def havoc_root(self, st, root, whole):
        if root[0] == "stream":
            content = self.flat.fresh(parse_type("bytes"), "lh_written")
            st.pc += self.flat.facts(parse_type("bytes"), content)
            st.streams[root[1]] = content
            st.nwrites[0] += 1
            return
        cur = self.read(st, root)
        if isinstance(cur, VRef):
            return
        t = self.type_of(cur)
        nv = self.flat.fresh(t, "lh_" + str(root[-1]))
        if isinstance(cur, VSeq) and not whole:
            nv = VSeq(nv.comps, cur.ln, cur.et, cur.kind)   # element writes keep the length
        st.pc += self.flat.facts(t, nv)
        wl = st.writelog
        st.writelog = None
        try:
            self.write(st, root, nv, structural=bool(whole))
        finally:
            st.writelog = wl

    def s_While(self, s, st):
        raise Unsupported(f"while loop at line {s.lineno} (no invariant support; bounded stand-in)")

    def s_With(self, s, st):
        from . import lib_models
        return lib_models.exec_with(self, s, st)
