"""Parallel discharge of all obligations of a property; portfolio retry; result records."""
from __future__ import annotations

import ast
import json
import multiprocessing as mp
import os
import subprocess
import tempfile
import time

_ENG = None


def _die_with_parent():
    """a worker must not outlive its check (an orphan that keeps a solver running steals CPU and memory from later
    checks): ask the kernel for SIGKILL when the parent dies, and poll the parent pid as a fallback"""
    import threading
    parent = os.getppid()
    try:
        import ctypes
        import signal
        ctypes.CDLL(None, use_errno=True).prctl(1, int(signal.SIGKILL), 0, 0, 0)      # PR_SET_PDEATHSIG
    except Exception:
        pass

    def poll():
        while True:
            time.sleep(5)
            if os.getppid() != parent:
                os._exit(70)
    threading.Thread(target=poll, daemon=True).start()


def _init(worker=True):
    global _ENG
    import faulthandler
    import signal
    import sys
    try:        # SIGUSR1 makes a worker print the Python stacks of its threads (used by the watchdog of check.py)
        faulthandler.register(signal.SIGUSR1, file=sys.stderr, all_threads=True)
    except (AttributeError, ValueError, OSError):
        pass
    if worker:
        _die_with_parent()
    import contracts  # noqa: F401  (fills the registries)
    import lemmas  # noqa: F401
    from .frontend import Repo
    from .sym import Engine
    repo = Repo()
    spec = ast.parse(open(os.path.join(os.path.dirname(__file__), "..", "contracts", "spec.py")).read())
    inline = getattr(contracts, "INLINE", ())
    _ENG = Engine(repo, spec, inline)


def _work(item):
    key, ctx, alias, timeout_ms, thorough = item
    global _ENG
    if _ENG is None:
        _init()
    from . import verify as V
    import faulthandler
    # last resort: a worker stuck in native code for 20 min (quick) / 3 h (thorough) kills itself; the pool is then
    # broken and run_items re-runs the unfinished items one by one
    faulthandler.dump_traceback_later(10800 if thorough else 420, exit=True)
    t0 = time.time()
    _PORTFOLIO_SPENT[0] = 0.0
    res = V.verify_one(_ENG, key, ctx, timeout_ms=timeout_ms, alias=alias)
    out = {"key": key, "ctx": ctx, "alias": alias, "file": res.file, "span": res.span, "paths": res.paths,
           "unsupported": res.unsupported, "error": res.error, "trusted": res.trusted, "vacuous": res.vacuous,
           "inlined": res.inlined, "lib_used": res.lib_used, "callees": res.callees, "obligations": [],
           "wall": 0.0}
    ex = getattr(res, "_ex", None)
    for ob, rec in zip(ex.obligations if ex else [], res.obligations):
        rec = dict(rec)
        if rec["status"] != "proved" and rec.get("curtailed"):
            rec["tries"] = [rec["backend"] + ":" + rec["status"], "quick attempts only: two earlier obligations of this "
                            "function were already unproved after the whole plan and portfolio"]
        elif rec["status"] != "proved":
            # portfolio: larger budget, then the other installed solvers on the SMT-LIB text
            rec = portfolio(_ENG, ob, rec, timeout_ms, thorough)
        elif thorough:
            rec["cross_checked"] = cross_check(_ENG, ob, timeout_ms)
        out["obligations"].append(rec)
    out["wall"] = round(time.time() - t0, 3)
    faulthandler.cancel_dump_traceback_later()
    return out


def smt2_of(eng, ob):
    from . import verify as V
    _, _, _, _, s = V.solve(eng, ob, 1)      # builds the solver with the right background axioms
    return s.to_smt2()


def run_cli(cmd, text, timeout_s):
    with tempfile.NamedTemporaryFile("w", suffix=".smt2", delete=False) as f:
        f.write(text)
        path = f.name
    try:
        t0 = time.time()
        p = subprocess.run(cmd + [path], capture_output=True, text=True, timeout=timeout_s + 5)
        out = (p.stdout or "").strip().splitlines()
        return (out[0] if out else "error"), time.time() - t0
    except subprocess.TimeoutExpired:
        return "timeout", timeout_s
    except OSError as e:
        return f"error {e}", 0.0
    finally:
        os.unlink(path)


_PORTFOLIO_SPENT = [0.0]


def portfolio(eng, ob, rec, timeout_ms, thorough):
    """an obligation z3 did not prove: retry with a larger budget when the reason was resource
    exhaustion, then the other installed solvers on the SMT-LIB text (bounded total budget per worker
    item so that a function with many failing obligations does not stall the check)"""
    from . import verify as V
    tries = [rec["backend"] + ":" + rec["status"]]
    reason = rec.get("reason", "") or ""
    big = max(timeout_ms * 2, 30000)
    status, model = rec["status"], None
    s = None
    if "timeout" in reason or "canceled" in reason or "resource" in reason or "max." in reason:
        status, dt, reason, model, s = V.solve(eng, ob, big)
        rec["time"] = round(rec["time"] + dt, 3)
        tries.append(f"z3-retry({big}ms):{status}")
        if status == "proved":
            rec.update(status="proved", backend=rec["backend"] + " (retry)")
            rec["tries"] = tries
            return rec
    if s is None:
        _, _, _, model, s = V.solve(eng, ob, 1000)
    text = s.to_smt2()
    other = 60 if thorough else 15
    cap = 240 if thorough else 45
    for name, cmd in (("z3-4.8.12", ["/usr/bin/z3", f"-T:{other}", "smt.mbqi=false", "auto_config=false"]),
                      ("cvc5-1.0.3", ["/usr/bin/cvc5", f"--tlimit={other * 1000}", "--full-saturate-quant"])):
        if not os.path.exists(cmd[0]):
            continue
        if _PORTFOLIO_SPENT[0] > cap:
            tries.append(f"{name}:skipped(per-function portfolio budget {cap}s spent)")
            continue
        ans, dt = run_cli(cmd, text, other)
        _PORTFOLIO_SPENT[0] += dt
        tries.append(f"{name}:{ans}")
        rec["time"] = round(rec["time"] + dt, 3)
        if ans == "unsat":
            rec.update(status="proved", backend=name)
            break
    rec["tries"] = tries
    if rec["status"] != "proved":
        rec["reason"] = reason or rec.get("reason", "")
        rec["smt2_size"] = len(text)
        if model is not None:
            rec["model"] = str(model)[:4000]
    return rec


def cross_check(eng, ob, timeout_ms):
    """thorough tier: re-check a proved obligation on the other installed back ends"""
    text = smt2_of(eng, ob)
    out = {}
    for name, cmd in (("z3-4.8.12", ["/usr/bin/z3", "-T:60", "smt.mbqi=false", "auto_config=false"]),
                      ("cvc5-1.0.3", ["/usr/bin/cvc5", "--tlimit=60000", "--full-saturate-quant"])):
        if os.path.exists(cmd[0]):
            ans, _ = run_cli(cmd, text, 60)
            out[name] = ans
    return out


def _died(item, why):
    key, ctx, alias, _, _ = item
    return {"key": key, "ctx": ctx, "alias": alias, "file": None, "span": None, "paths": 0, "unsupported": None,
            "error": why, "trusted": False, "vacuous": False, "inlined": [], "lib_used": [], "callees": [],
            "obligations": [], "wall": 0.0}


def run_items(items, jobs=None, item_timeout=780):
    """every item in its own task of a process pool.  A worker that dies (solver crash, out of memory) breaks the pool:
    the unfinished items are then re-run one by one in fresh single-worker pools, so that a crash costs one item (a
    checker error for that function), never a hang."""
    from concurrent.futures import ProcessPoolExecutor, wait
    from concurrent.futures.process import BrokenProcessPool
    jobs = jobs or min(16, max(1, len(items)))
    if len(items) <= 1 or jobs == 1:
        _init(worker=False)
        return [_work(it) for it in items]
    ctx = mp.get_context("spawn")
    results = [None] * len(items)
    pending = list(range(len(items)))
    try:
        with ProcessPoolExecutor(max_workers=jobs, mp_context=ctx, initializer=_init) as ex:
            futs = {ex.submit(_work, items[i]): i for i in pending}
            done, not_done = wait(futs, timeout=item_timeout)
            for f in done:
                try:
                    results[futs[f]] = f.result()
                except BrokenProcessPool:
                    pass
                except Exception as e:   # noqa: BLE001
                    results[futs[f]] = _died(items[futs[f]], f"worker raised {type(e).__name__}: {e}")
            for f in not_done:
                f.cancel()
                results[futs[f]] = _died(items[futs[f]], f"no result within {item_timeout}s")
    except BrokenProcessPool:
        pass
    for i in [i for i in range(len(items)) if results[i] is None]:
        try:
            with ProcessPoolExecutor(max_workers=1, mp_context=ctx, initializer=_init) as ex:
                results[i] = ex.submit(_work, items[i]).result(timeout=item_timeout)
        except Exception as e:   # noqa: BLE001
            results[i] = _died(items[i], f"worker process died or timed out ({type(e).__name__}: {e})")
    return results
