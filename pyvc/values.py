"""Types, symbolic values and their flattening into z3 terms."""
from __future__ import annotations

import itertools
import re

import z3

# --------------------------------------------------------------------------------------
# types
# --------------------------------------------------------------------------------------


class T:
    pass


class TInt(T):
    def __init__(self, lo=None, hi=None):
        self.lo, self.hi = lo, hi

    def __repr__(self):
        return f"int[{self.lo},{self.hi}]" if (self.lo is not None or self.hi is not None) else "int"


class TBool(T):
    def __repr__(self):
        return "bool"


class TReal(T):
    def __repr__(self):
        return "float"


class TStr(T):
    def __repr__(self):
        return "str"


class TNone(T):
    def __repr__(self):
        return "none"


class TFunc(T):
    def __init__(self, kind="hashfunc"):
        self.kind = kind      # hashfunc: (key, depth)->list[int] | bytesfunc: (key, idx)->bytes | intfunc: (key[, seed])->int

    def __repr__(self):
        return self.kind


class TAny(T):
    def __repr__(self):
        return "any"


class TSeq(T):
    def __init__(self, elem, kind="list"):
        self.elem, self.kind = elem, kind

    def __repr__(self):
        return f"{self.kind}[{self.elem}]"


class TObj(T):
    def __init__(self, cls):
        self.cls = cls

    def __repr__(self):
        return f"obj:{self.cls}"


class TOpt(T):
    def __init__(self, t):
        self.t = t

    def __repr__(self):
        return f"opt[{self.t}]"


class TTuple(T):
    def __init__(self, ts):
        self.ts = ts

    def __repr__(self):
        return f"tuple{self.ts}"


class TMap(T):
    """dict with str keys and int values (heavy hitters / threshold tables)"""

    def __repr__(self):
        return "map"


class TStream(T):
    def __repr__(self):
        return "stream"


class TFilePtr(T):
    """read/write file object opened on the file that the owner's `_bloom` mmap maps"""

    def __repr__(self):
        return "fileptr"


ARRAY_RANGES = {
    "B": (0, 255),
    "I": (0, 2**32 - 1),
    "i": (-(2**31), 2**31 - 1),
    "L": (0, 2**64 - 1),
    "Q": (0, 2**64 - 1),
    "q": (-(2**63), 2**63 - 1),
}


def _split_top(s):
    parts, depth, cur = [], 0, ""
    for ch in s:
        if ch == "[":
            depth += 1
        elif ch == "]":
            depth -= 1
        if ch == "," and depth == 0:
            parts.append(cur.strip())
            cur = ""
        else:
            cur += ch
    if cur.strip():
        parts.append(cur.strip())
    return parts


def parse_type(s) -> T:
    if isinstance(s, T):
        return s
    s = s.strip()
    if s == "int":
        return TInt()
    if s == "nat":
        return TInt(0, None)
    m = re.fullmatch(r"int\[(-?\d*),(-?\d*)\]", s)
    if m:
        return TInt(int(m.group(1)) if m.group(1) else None, int(m.group(2)) if m.group(2) else None)
    if s == "bool":
        return TBool()
    if s == "float":
        return TReal()
    if s in ("str", "key", "method"):
        return TStr()
    if s == "none":
        return TNone()
    if s in ("func", "hashfunc"):
        return TFunc("hashfunc")
    if s in ("bytesfunc", "intfunc"):
        return TFunc(s)
    if s in ("any", "foreign"):
        t = TAny()
        t.foreign = (s == "foreign")
        return t
    if s == "map":
        return TMap()
    if s == "stream":
        return TStream()
    if s == "fileptr":
        return TFilePtr()
    if s == "bytes":
        return TSeq(TInt(0, 255), "bytes")
    if s == "mmap":
        return TSeq(TInt(0, 255), "mmap")
    if s == "hex":
        # a text of hexadecimal digits, modelled as the sequence of its digit VALUES (0..15; letter case abstracted)
        return TSeq(TInt(0, 15), "hex")
    if s.startswith("array:"):
        tc = s.split(":")[1]
        lo, hi = ARRAY_RANGES[tc]
        return TSeq(TInt(lo, hi), "array:" + tc)
    if s.startswith("list[") and s.endswith("]"):
        return TSeq(parse_type(s[5:-1]), "list")
    if s.startswith("opt[") and s.endswith("]"):
        return TOpt(parse_type(s[4:-1]))
    if s.startswith("tuple[") and s.endswith("]"):
        return TTuple([parse_type(p) for p in _split_top(s[6:-1])])
    if s.startswith("obj:"):
        return TObj(s[4:])
    if s.startswith("struct:"):
        t = TAny()
        t.structfmt = s[7:]
        return t
    raise ValueError(f"bad type string {s!r}")


# --------------------------------------------------------------------------------------
# values
# --------------------------------------------------------------------------------------


class V:
    pass


class VInt(V):
    def __init__(self, t):
        self.t = z3.IntVal(t) if isinstance(t, int) else t

    def __repr__(self):
        return f"VInt({self.t})"


class VBool(V):
    def __init__(self, t):
        self.t = z3.BoolVal(t) if isinstance(t, bool) else t

    def __repr__(self):
        return f"VBool({self.t})"


class VReal(V):
    def __init__(self, t):
        self.t = z3.RealVal(t) if isinstance(t, (int, float, str)) else t

    def __repr__(self):
        return f"VReal({self.t})"


class VNone(V):
    def __repr__(self):
        return "VNone"


_STR_TABLE = {}


def str_code(s):
    """Int code of a string literal: distinct literals get distinct (negative) codes."""
    if s not in _STR_TABLE:
        _STR_TABLE[s] = -(len(_STR_TABLE) + 1)
    return _STR_TABLE[s]


class VStr(V):
    """str / bytes *key* values are Int-coded; `lit` keeps a literal's Python text"""

    def __init__(self, t, lit=None):
        self.t = t
        self.lit = lit

    @staticmethod
    def const(s):
        return VStr(z3.IntVal(str_code(s)), s)

    def __repr__(self):
        return f"VStr({self.lit!r})" if self.lit is not None else f"VStr({self.t})"


class VFunc(V):
    def __init__(self, t, kind="hashfunc"):
        self.t = t
        self.kind = kind


class VSeq(V):
    """comps: one z3 array per flattened component of the element type; ln: Int"""

    def __init__(self, comps, ln, et, kind="list"):
        self.comps, self.ln, self.et, self.kind = list(comps), ln, et, kind

    def __repr__(self):
        return f"VSeq<{self.kind}[{self.et}] len={self.ln}>"


class VTuple(V):
    def __init__(self, items):
        self.items = list(items)


class VStruct(V):
    """an object *value* (all fields); heap objects and container elements"""

    def __init__(self, cls, fields):
        self.cls, self.fields = cls, dict(fields)

    def __repr__(self):
        return f"VStruct<{self.cls}>"


class VRef(V):
    """reference to an object living at a location"""

    def __init__(self, loc, cls, epoch=None):
        self.loc, self.cls, self.epoch = loc, cls, epoch

    def __repr__(self):
        return f"VRef<{self.cls}@{self.loc}>"


class VOpt(V):
    def __init__(self, isnone, val):
        self.isnone, self.val = isnone, val


class VOpaque(V):
    def __init__(self, desc=""):
        self.desc = desc

    def __repr__(self):
        return f"VOpaque({self.desc})"


class VRange(V):
    def __init__(self, lo, hi):
        self.lo, self.hi = lo, hi


class VEnum(V):
    def __init__(self, seq, loc=None):
        self.seq, self.loc = seq, loc


class VZip(V):
    """zip(a, b, ...) of sequences (each with the location it is read from, if any)"""

    def __init__(self, parts, locs):
        self.parts, self.locs = parts, locs


class VMap(V):
    """dict str->int: dom: Array Int Bool, val: Array Int Int, card: Int"""

    def __init__(self, dom, val, card):
        self.dom, self.val, self.card = dom, val, card


class VStructFmt(V):
    """struct.Struct(fmt) constant"""

    def __init__(self, fmt):
        self.fmt = fmt


class VStream(V):
    """a byte stream being written (BytesIO / file opened 'wb'); segments appended"""

    def __init__(self, sid):
        self.sid = sid


class VFilePtr(V):
    """isnone: the slot holds None; pos: file position; closed; pending write (ppos, plen, parr): bytes handed
    to write() that are still in the user-space buffer (not yet in the file) until flush()"""

    def __init__(self, isnone, pos, closed, haspend, ppos, plen, parr):
        self.isnone, self.pos, self.closed = isnone, pos, closed
        self.haspend, self.ppos, self.plen, self.parr = haspend, ppos, plen, parr

    def terms(self):
        return [self.isnone, self.pos, self.closed, self.haspend, self.ppos, self.plen, self.parr]


class VClass(V):
    def __init__(self, name):
        self.name = name


class VModule(V):
    def __init__(self, name):
        self.name = name


class VBuiltin(V):
    def __init__(self, name):
        self.name = name


class VBoundMethod(V):
    def __init__(self, recv, name):
        self.recv, self.name = recv, name


# --------------------------------------------------------------------------------------
# flattening
# --------------------------------------------------------------------------------------

_fresh_counter = itertools.count()


def fresh_name(base):
    return f"{base}!{next(_fresh_counter)}"


def arr_sort(s):
    return z3.ArraySort(z3.IntSort(), s)


class Flattener:
    """needs class field tables (name -> {field: T}) to flatten TObj"""

    def __init__(self, class_fields):
        self.class_fields = class_fields   # callable cls -> ordered dict field -> T

    def sorts(self, t: T):
        if isinstance(t, (TInt, TStr, TFunc)):
            return [z3.IntSort()]
        if isinstance(t, TBool):
            return [z3.BoolSort()]
        if isinstance(t, TReal):
            return [z3.RealSort()]
        if isinstance(t, (TNone, TAny, TStream)):
            return []
        if isinstance(t, TSeq):
            return [arr_sort(s) for s in self.sorts(t.elem)] + [z3.IntSort()]
        if isinstance(t, TObj):
            out = []
            for _, ft in self.class_fields(t.cls).items():
                out += self.sorts(ft)
            return out
        if isinstance(t, TOpt):
            return [z3.BoolSort()] + self.sorts(t.t)
        if isinstance(t, TTuple):
            out = []
            for x in t.ts:
                out += self.sorts(x)
            return out
        if isinstance(t, TMap):
            return [arr_sort(z3.BoolSort()), arr_sort(z3.IntSort()), z3.IntSort()]
        if isinstance(t, TFilePtr):
            return [z3.BoolSort(), z3.IntSort(), z3.BoolSort(), z3.BoolSort(), z3.IntSort(), z3.IntSort(),
                    arr_sort(z3.IntSort())]
        raise TypeError(f"cannot flatten type {t}")

    def pack(self, t: T, v: V):
        if isinstance(t, (TInt, TStr, TFunc)):
            if isinstance(v, VBool):
                return [z3.If(v.t, z3.IntVal(1), z3.IntVal(0))]
            if not isinstance(v, (VInt, VStr, VFunc)):
                raise TypeError(f"pack: expected int-like for {t}, got {v}")
            return [v.t]
        if isinstance(t, TBool):
            return [v.t]
        if isinstance(t, TReal):
            if isinstance(v, VInt):
                return [z3.ToReal(v.t)]
            return [v.t]
        if isinstance(t, (TNone, TAny, TStream)):
            return []
        if isinstance(t, TSeq):
            if not isinstance(v, VSeq):
                raise TypeError(f"pack: expected seq for {t}, got {v}")
            return list(v.comps) + [v.ln]
        if isinstance(t, TObj):
            if not isinstance(v, VStruct):
                raise TypeError(f"pack: expected struct for {t}, got {v}")
            out = []
            for f, ft in self.class_fields(t.cls).items():
                out += self.pack(ft, v.fields[f])
            return out
        if isinstance(t, TOpt):
            if isinstance(v, VNone):
                return [z3.BoolVal(True)] + self.default_terms(t.t)
            if isinstance(v, VOpt):
                return [v.isnone] + self.pack(t.t, v.val)
            return [z3.BoolVal(False)] + self.pack(t.t, v)
        if isinstance(t, TTuple):
            out = []
            for x, y in zip(t.ts, v.items):
                out += self.pack(x, y)
            return out
        if isinstance(t, TMap):
            return [v.dom, v.val, v.card]
        if isinstance(t, TFilePtr):
            if isinstance(v, VNone):
                d = self.default_terms(t)
                return [z3.BoolVal(True)] + d[1:]
            return v.terms()
        raise TypeError(f"cannot pack type {t}")

    def unpack(self, t: T, terms):
        v, rest = self._unpack(t, list(terms))
        assert not rest, (t, terms)
        return v

    def _unpack(self, t, terms):
        if isinstance(t, TInt):
            return VInt(terms[0]), terms[1:]
        if isinstance(t, TStr):
            return VStr(terms[0]), terms[1:]
        if isinstance(t, TFunc):
            return VFunc(terms[0], t.kind), terms[1:]
        if isinstance(t, TBool):
            return VBool(terms[0]), terms[1:]
        if isinstance(t, TReal):
            return VReal(terms[0]), terms[1:]
        if isinstance(t, TNone):
            return VNone(), terms
        if isinstance(t, (TAny, TStream)):
            return VOpaque("any"), terms
        if isinstance(t, TSeq):
            n = len(self.sorts(t.elem))
            return VSeq(terms[:n], terms[n], t.elem, t.kind), terms[n + 1:]
        if isinstance(t, TObj):
            fields = {}
            for f, ft in self.class_fields(t.cls).items():
                fields[f], terms = self._unpack(ft, terms)
            return VStruct(t.cls, fields), terms
        if isinstance(t, TOpt):
            isn = terms[0]
            val, rest = self._unpack(t.t, terms[1:])
            return VOpt(isn, val), rest
        if isinstance(t, TTuple):
            items = []
            for x in t.ts:
                it, terms = self._unpack(x, terms)
                items.append(it)
            return VTuple(items), terms
        if isinstance(t, TMap):
            return VMap(terms[0], terms[1], terms[2]), terms[3:]
        if isinstance(t, TFilePtr):
            return VFilePtr(*terms[:7]), terms[7:]
        raise TypeError(f"cannot unpack type {t}")

    def default_terms(self, t):
        return [z3.FreshConst(s, "dflt") for s in self.sorts(t)]

    def fresh(self, t: T, name):
        terms = [z3.Const(fresh_name(f"{name}.{i}" if i else name), s) for i, s in enumerate(self.sorts(t))]
        return self.unpack(t, terms)

    # ---- typing facts of a value (ranges of ints, non-negative lengths) ---------------
    def facts(self, t: T, v: V):
        """closed z3 facts expressing that v inhabits t (quantified for sequences)"""
        out = []
        for binders, body, pat in self._facts(t, v):
            if binders:
                out.append(z3.ForAll(list(binders), body, patterns=[pat]) if pat is not None
                           else z3.ForAll(list(binders), body))
            else:
                out.append(body)
        return out

    def _facts(self, t, v):
        out = []
        if isinstance(t, TInt):
            cs = []
            if t.lo is not None:
                cs.append(v.t >= t.lo)
            if t.hi is not None:
                cs.append(v.t <= t.hi)
            if cs:
                out.append(((), z3.And(*cs) if len(cs) > 1 else cs[0], v.t))
        elif isinstance(t, TSeq):
            out.append(((), v.ln >= 0, None))
            if self._has_facts(t.elem):
                i = z3.Int(fresh_name("q"))
                ev = self.unpack(t.elem, [a[i] for a in v.comps])
                for binders, body, pat in self._facts(t.elem, ev):
                    if pat is None or not _mentions(pat, i):
                        pat = v.comps[-1][i] if v.comps else None
                    out.append(((i,) + tuple(binders), body, pat))
        elif isinstance(t, TObj):
            for f, ft in self.class_fields(t.cls).items():
                out += self._facts(ft, v.fields[f])
        elif isinstance(t, TOpt):
            for binders, body, pat in self._facts(t.t, v.val):
                out.append((binders, z3.Or(v.isnone, body), pat))
        elif isinstance(t, TTuple):
            for x, y in zip(t.ts, v.items):
                out += self._facts(x, y)
        elif isinstance(t, TMap):
            # T-card on a symbolic dictionary: the size is >= 0, zero exactly when no key is present
            out.append(((), v.card >= 0, None))
            q = z3.Int(fresh_name("mq"))
            q2 = z3.Int(fresh_name("mq"))
            out.append(((), z3.Implies(v.card > 0, z3.Exists([q], v.dom[q])), None))
            out.append(((), z3.Implies(v.card == 0, z3.ForAll([q2], z3.Not(v.dom[q2]), patterns=[v.dom[q2]])), None))
        return out

    def _has_facts(self, t):
        if isinstance(t, TInt):
            return t.lo is not None or t.hi is not None
        if isinstance(t, TSeq):
            return True
        if isinstance(t, TObj):
            return any(self._has_facts(ft) for ft in self.class_fields(t.cls).values())
        if isinstance(t, TOpt):
            return self._has_facts(t.t)
        if isinstance(t, TTuple):
            return any(self._has_facts(x) for x in t.ts)
        return False


def _mentions(term, var):
    seen = set()
    todo = [term]
    while todo:
        x = todo.pop()
        if x.get_id() in seen:
            continue
        seen.add(x.get_id())
        if z3.eq(x, var):
            return True
        todo.extend(x.children())
    return False


def quantify(binders, body, patterns=None):
    if not binders:
        return body
    if patterns:
        return z3.ForAll(list(binders), body, patterns=patterns)
    return z3.ForAll(list(binders), body)
