"""T-occ2: counting occurrences in a jagged table of ints (list of lists) - the cuckoo bucket table.

    tcount(C, L, n, f)  = number of slots (b, j), b < n, j < L[b], with C[b][j] == f
    tsize(L, n)         = number of slots (b, j), b < n            (= sum of the bucket lengths)
    lcount via rsum     = occurrences in a flat list:  rsum(lambda j. [a[j] == f], lo, hi)

The function symbols are uninterpreted.  They are tied to the table by
  * generic axioms (non-negativity, member => count >= 1, count >= 1 => witness slot, unfolding over the bucket
    index, agreement of tables that agree on the first n buckets), and
  * UPDATE FACTS that the engine adds at the very statement that mutates a table (append to a bucket, overwrite
    of a slot, list.remove in a bucket, append of an empty bucket): there both table terms are at hand, so no
    trigger has to recognise the shape of a store chain.
Every axiom and every update fact is a statement about plain Python lists; `validate_native` re-checks all of
them on random tables with CPython on every run (they are listed as trusted theory in the evidence)."""
from __future__ import annotations

import random

import z3

I = z3.IntSort()
A = z3.ArraySort(I, I)
AA = z3.ArraySort(I, A)

tcount = z3.Function("tcount", AA, A, I, I, I)
tsize = z3.Function("tsize", A, I, I)
lcnt = z3.Function("lcnt", A, I, I, I, I)          # occurrences of f in a[lo:hi]
lwit = z3.Function("lcnt_w", A, I, I, I, I)
wit_b = z3.Function("tcount_wb", AA, A, I, I, I)
wit_j = z3.Function("tcount_wj", AA, A, I, I, I)


# undoing a recorded chain of swaps (cuckoo eviction): UC / UH = table cells / in-hand value after undoing
# swaps n-1, ..., 0 (each swap exchanges the in-hand value with the slot (B[k], J[k]))
UC = z3.Function("undo_cells", AA, I, A, A, I, AA)
UH = z3.Function("undo_hand", AA, I, A, A, I, I)


def store2(C, b, j, x):
    return z3.Store(C, b, z3.Store(C[b], j, x))


def undo_axioms():
    C = z3.Const("C!u", AA)
    B, J, B2, J2 = z3.Const("B!u", A), z3.Const("J!u", A), z3.Const("B2!u", A), z3.Const("J2!u", A)
    h, n, k, i = z3.Ints("h!u n!u k!u i!u")
    return [
        z3.ForAll([C, h, B, J, n], z3.Implies(n <= 0, z3.And(UC(C, h, B, J, n) == C, UH(C, h, B, J, n) == h)),
                  patterns=[UC(C, h, B, J, n), UH(C, h, B, J, n)]),
        # one undo step (definition), stated between two existing applications
        z3.ForAll([C, h, B, J, n, k],
                  z3.Implies(z3.And(n >= 1, k == n - 1),
                             z3.And(UC(C, h, B, J, n) == UC(store2(C, B[k], J[k], h), C[B[k]][J[k]], B, J, k),
                                    UH(C, h, B, J, n) == UH(store2(C, B[k], J[k], h), C[B[k]][J[k]], B, J, k))),
                  patterns=[z3.MultiPattern(UC(C, h, B, J, n), B[k]), z3.MultiPattern(UH(C, h, B, J, n), B[k])]),
        # only the first n recorded swaps matter
        z3.ForAll([C, h, B, J, B2, J2, n],
                  z3.Or(z3.And(UC(C, h, B, J, n) == UC(C, h, B2, J2, n), UH(C, h, B, J, n) == UH(C, h, B2, J2, n)),
                        z3.Exists([i], z3.And(0 <= i, i < n, z3.Or(B[i] != B2[i], J[i] != J2[i])))),
                  patterns=[z3.MultiPattern(UC(C, h, B, J, n), UC(C, h, B2, J2, n))]),
    ]


def ind(c):
    return z3.If(c, z3.IntVal(1), z3.IntVal(0))


def list_axioms():
    a, a2 = z3.Const("a!l", A), z3.Const("a2!l", A)
    lo, hi, k, f, j = z3.Ints("lo!l hi!l k!l f!l j!l")
    return [
        z3.ForAll([a, lo, hi, f], lcnt(a, lo, hi, f) >= 0, patterns=[lcnt(a, lo, hi, f)]),
        z3.ForAll([a, lo, hi, f], z3.Implies(hi <= lo, lcnt(a, lo, hi, f) == 0), patterns=[lcnt(a, lo, hi, f)]),
        z3.ForAll([a, lo, hi, f, j], z3.Implies(z3.And(lo <= j, j < hi, a[j] == f), lcnt(a, lo, hi, f) >= 1),
                  patterns=[z3.MultiPattern(a[j], lcnt(a, lo, hi, f))]),
        z3.ForAll([a, lo, hi, f],
                  z3.Implies(lcnt(a, lo, hi, f) >= 1,
                             z3.And(lo <= lwit(a, lo, hi, f), lwit(a, lo, hi, f) < hi, a[lwit(a, lo, hi, f)] == f)),
                  patterns=[lcnt(a, lo, hi, f)]),
        z3.ForAll([a, lo, hi, k, f], z3.Implies(z3.And(k == hi + 1, lo <= hi), lcnt(a, lo, k, f) == lcnt(a, lo, hi, f) + ind(a[hi] == f)),
                  patterns=[z3.MultiPattern(lcnt(a, lo, k, f), lcnt(a, lo, hi, f))]),
        z3.ForAll([a, lo, hi, k, f], z3.Implies(z3.And(k == lo + 1, lo < hi), lcnt(a, lo, hi, f) == ind(a[lo] == f) + lcnt(a, k, hi, f)),
                  patterns=[z3.MultiPattern(lcnt(a, lo, hi, f), lcnt(a, k, hi, f))]),
        z3.ForAll([a, a2, lo, hi, f],
                  z3.Or(lcnt(a, lo, hi, f) == lcnt(a2, lo, hi, f), z3.Exists([j], z3.And(lo <= j, j < hi, a[j] != a2[j]))),
                  patterns=[z3.MultiPattern(lcnt(a, lo, hi, f), lcnt(a2, lo, hi, f))]),
    ]


def fact_list_append(old, new, x):
    f = z3.Int("f!la")
    try:
        return [z3.ForAll([f], lcnt(new.comps[0], 0, new.ln, f) == lcnt(old.comps[0], 0, old.ln, f) + ind(f == x),
                          patterns=[lcnt(new.comps[0], 0, new.ln, f), lcnt(old.comps[0], 0, old.ln, f)])]
    except z3.Z3Exception:
        return []          # (store/lambda array terms cannot be triggers; the fact is optional)


def fact_list_extend(old, other, new):
    f = z3.Int("f!le")
    try:
        return [z3.ForAll([f], lcnt(new.comps[0], 0, new.ln, f) == lcnt(old.comps[0], 0, old.ln, f)
                          + lcnt(other.comps[0], 0, other.ln, f),
                          patterns=[lcnt(new.comps[0], 0, new.ln, f), lcnt(old.comps[0], 0, old.ln, f)])]
    except z3.Z3Exception:
        return []


def axioms(rsum):
    C, C2 = z3.Const("C!t", AA), z3.Const("C2!t", AA)
    L, L2 = z3.Const("L!t", A), z3.Const("L2!t", A)
    n, n2, f, b, j = z3.Ints("n!t n2!t f!t b!t j!t")
    jj = z3.Int("jj!t")
    out = [
        z3.ForAll([C, L, n, f], tcount(C, L, n, f) >= 0, patterns=[tcount(C, L, n, f)]),
        z3.ForAll([C, L, n, f], z3.Implies(n <= 0, tcount(C, L, n, f) == 0), patterns=[tcount(C, L, n, f)]),
        z3.ForAll([L, n], z3.Implies(n <= 0, tsize(L, n) == 0), patterns=[tsize(L, n)]),
        # a stored value is counted at least once
        z3.ForAll([C, L, n, f, b, j],
                  z3.Implies(z3.And(0 <= b, b < n, 0 <= j, j < L[b], C[b][j] == f), tcount(C, L, n, f) >= 1),
                  patterns=[z3.MultiPattern(C[b][j], tcount(C, L, n, f))]),
        # a counted value sits in some slot
        z3.ForAll([C, L, n, f],
                  z3.Implies(tcount(C, L, n, f) >= 1,
                             z3.And(0 <= wit_b(C, L, n, f), wit_b(C, L, n, f) < n, 0 <= wit_j(C, L, n, f),
                                    wit_j(C, L, n, f) < L[wit_b(C, L, n, f)],
                                    C[wit_b(C, L, n, f)][wit_j(C, L, n, f)] == f)),
                  patterns=[tcount(C, L, n, f)]),
        # unfolding over the bucket index (stated over pairs of existing terms, cf. rsum)
        z3.ForAll([C, L, n, n2, f],
                  z3.Implies(z3.And(n2 == n + 1, n >= 0),
                             tcount(C, L, n2, f) == tcount(C, L, n, f) + lcnt(C[n], z3.IntVal(0), L[n], f)),
                  patterns=[z3.MultiPattern(tcount(C, L, n2, f), tcount(C, L, n, f))]),
        z3.ForAll([L, n, n2], z3.Implies(z3.And(n2 == n + 1, n >= 0, L[n] >= 0), tsize(L, n2) == tsize(L, n) + L[n]),
                  patterns=[z3.MultiPattern(tsize(L, n2), tsize(L, n))]),
        # tables that agree on the first n buckets have the same counts
        z3.ForAll([C, L, C2, L2, n, f],
                  z3.Or(tcount(C, L, n, f) == tcount(C2, L2, n, f),
                        z3.Exists([b], z3.And(0 <= b, b < n, z3.Or(C[b] != C2[b], L[b] != L2[b])))),
                  patterns=[z3.MultiPattern(tcount(C, L, n, f), tcount(C2, L2, n, f))]),
        z3.ForAll([L, L2, n],
                  z3.Or(tsize(L, n) == tsize(L2, n), z3.Exists([b], z3.And(0 <= b, b < n, L[b] != L2[b]))),
                  patterns=[z3.MultiPattern(tsize(L, n), tsize(L2, n))]),
    ]
    return out + list_axioms() + undo_axioms()


# ---- update facts (added by the engine at the mutating statement) --------------------------------------------------
def fact_bucket_append(old, new, b, x):
    """inner append of x to bucket b (old/new: VSeq of the table)"""
    f = z3.Int("f!ua")
    C, L, n = old.comps[0], old.comps[1], old.ln
    C2, L2 = new.comps[0], new.comps[1]
    return [z3.ForAll([f], tcount(C2, L2, n, f) == tcount(C, L, n, f) + ind(f == x),
                      patterns=[tcount(C2, L2, n, f), tcount(C, L, n, f)]),
            tsize(L2, n) == tsize(L, n) + 1]


def fact_slot_overwrite(old, new, b, j, xold, y):
    f = z3.Int("f!uo")
    C, L, n = old.comps[0], old.comps[1], old.ln
    C2, L2 = new.comps[0], new.comps[1]
    return [z3.ForAll([f], tcount(C2, L2, n, f) == tcount(C, L, n, f) - ind(f == xold) + ind(f == y),
                      patterns=[tcount(C2, L2, n, f), tcount(C, L, n, f)]),
            tsize(L2, n) == tsize(L, n)]


def fact_bucket_remove(old, new, b, x):
    f = z3.Int("f!ur")
    C, L, n = old.comps[0], old.comps[1], old.ln
    C2, L2 = new.comps[0], new.comps[1]
    return [z3.ForAll([f], tcount(C2, L2, n, f) == tcount(C, L, n, f) - ind(f == x),
                      patterns=[tcount(C2, L2, n, f), tcount(C, L, n, f)]),
            tsize(L2, n) == tsize(L, n) - 1]


def fact_outer_append_empty(old, new):
    f = z3.Int("f!ue")
    C, L, n = old.comps[0], old.comps[1], old.ln
    C2, L2 = new.comps[0], new.comps[1]
    return [z3.ForAll([f], tcount(C2, L2, n + 1, f) == tcount(C, L, n, f),
                      patterns=[tcount(C2, L2, n + 1, f), tcount(C, L, n, f)]),
            tsize(L2, n + 1) == tsize(L, n)]


def fact_outer_append(old, new, bucket):
    """append of a whole bucket (a list of ints) at the end of the table"""
    f = z3.Int("f!uf")
    C, L, n = old.comps[0], old.comps[1], old.ln
    C2, L2 = new.comps[0], new.comps[1]
    return [z3.ForAll([f], tcount(C2, L2, n + 1, f) == tcount(C, L, n, f) + lcnt(bucket.comps[0], 0, bucket.ln, f),
                      patterns=[tcount(C2, L2, n + 1, f), tcount(C, L, n, f)]),
            tsize(L2, n + 1) == tsize(L, n) + bucket.ln]


# ---- native validation -----------------------------------------------------------------------------------------------
def _tc(T, n, f):
    return sum(b.count(f) for b in T[:max(n, 0)])


def _ts(T, n):
    return sum(len(b) for b in T[:max(n, 0)])


nzlead = z3.Function("nzlead", A, I, I)             # number of leading non-zero entries of a[0:n]


def nz_axioms():
    a = z3.Const("a!nz", A)
    n, i = z3.Ints("n!nz i!nz")
    return [z3.ForAll([a, n], z3.Implies(n >= 0, z3.And(0 <= nzlead(a, n), nzlead(a, n) <= n)), patterns=[nzlead(a, n)]),
            z3.ForAll([a, n, i], z3.Implies(z3.And(0 <= i, i < nzlead(a, n)), a[i] != 0),
                      patterns=[z3.MultiPattern(nzlead(a, n), a[i])]),
            z3.ForAll([a, n], z3.Implies(z3.And(n >= 0, nzlead(a, n) < n), a[nzlead(a, n)] == 0), patterns=[nzlead(a, n)])]


def fact_filter_nonzero(a, n, f, m):
    """[x for x in a[0:n] if x] == f[0:m]: order kept, zeros dropped.  Stated as what the proofs use: sizes, no zero in
    the result, occurrence counts of every non-zero value kept, and the padded case (all zeros at the end) where the
    result is exactly the non-zero prefix"""
    i, x = z3.Ints("i!fz x!fz")
    lead = nzlead(a, n)
    padded = z3.ForAll([i], z3.Implies(z3.And(lead <= i, i < n), a[i] == 0))
    return [z3.And(0 <= m, m <= n),
            z3.ForAll([i], z3.Implies(z3.And(0 <= i, i < m), f[i] != 0)),
            z3.ForAll([x], z3.Implies(x != 0, lcnt(f, 0, m, x) == lcnt(a, 0, n, x)), patterns=[lcnt(f, 0, m, x)]),
            lcnt(f, 0, m, 0) == 0,
            m == n - lcnt(a, 0, n, 0),
            z3.Implies(padded, z3.And(m == lead, z3.ForAll([i], z3.Implies(z3.And(0 <= i, i < m), f[i] == a[i]))))]


def validate_native(seed=0, rounds=400):
    """random tables: every axiom / update fact of this module evaluated with CPython lists"""
    rnd = random.Random(seed)
    cases, failures = 0, []

    def chk(name, cond, info):
        nonlocal cases
        cases += 1
        if not cond and len(failures) < 3:
            failures.append((name, info))

    for _ in range(rounds):
        a = [rnd.randrange(0, 4) for _ in range(rnd.randrange(0, 6))]
        if rnd.random() < 0.5:
            a = sorted(a, key=lambda v: v == 0)           # padded shape: zeros at the end
        fz = [v for v in a if v]
        lead = next((k for k, v in enumerate(a) if v == 0), len(a))
        chk("nz_lead_range", 0 <= lead <= len(a) and all(a[k] != 0 for k in range(lead)) and (lead == len(a) or a[lead] == 0), a)
        chk("nz_sizes", 0 <= len(fz) <= len(a) and all(v != 0 for v in fz) and len(fz) == len(a) - a.count(0), a)
        chk("nz_counts", all(fz.count(v) == a.count(v) for v in range(1, 5)) and fz.count(0) == 0, a)
        if all(v == 0 for v in a[lead:]):
            chk("nz_padded", fz == a[:lead], a)
        b2 = [rnd.randrange(0, 4) for _ in range(rnd.randrange(0, 4))]
        x = rnd.randrange(0, 4)
        for f in range(-1, 5):
            for lo in range(0, len(a) + 1):
                for hi in range(lo, len(a) + 1):
                    c = a[lo:hi].count(f)
                    chk("l_nonneg", c >= 0, (a, lo, hi, f))
                    chk("l_member", all(a[j] != f or c >= 1 for j in range(lo, hi)), (a, lo, hi, f))
                    chk("l_witness", c < 1 or f in a[lo:hi], (a, lo, hi, f))
                    if hi < len(a):
                        chk("l_unfold_up", a[lo:hi + 1].count(f) == c + (a[hi] == f), (a, lo, hi, f))
                    if lo < hi:
                        chk("l_unfold_lo", c == (a[lo] == f) + a[lo + 1:hi].count(f), (a, lo, hi, f))
            chk("l_append", (a + [x]).count(f) == a.count(f) + (f == x), (a, x, f))
            chk("l_extend", (a + b2).count(f) == a.count(f) + b2.count(f), (a, b2, f))
        n = rnd.randrange(0, 5)
        T = [[rnd.randrange(0, 4) for _ in range(rnd.randrange(0, 4))] for _ in range(n)]
        for f in range(-1, 5):
            chk("nonneg", _tc(T, n, f) >= 0, (T, f))
            chk("empty_prefix", _tc(T, 0, f) == 0, (T, f))
            chk("member", all(_tc(T, n, T[b][j]) >= 1 for b in range(n) for j in range(len(T[b]))), (T, f))
            chk("witness", (_tc(T, n, f) < 1) or any(f in b for b in T), (T, f))
            for k in range(n):
                chk("unfold", _tc(T, k + 1, f) == _tc(T, k, f) + T[k].count(f), (T, k, f))
                chk("unfold_size", _ts(T, k + 1) == _ts(T, k) + len(T[k]), (T, k))
        if n:
            b = rnd.randrange(n)
            x = rnd.randrange(0, 4)
            T2 = [list(r) for r in T]
            T2[b].append(x)
            for f in range(-1, 5):
                chk("append", _tc(T2, n, f) == _tc(T, n, f) + (f == x), (T, b, x, f))
            chk("append_size", _ts(T2, n) == _ts(T, n) + 1, (T, b, x))
            if T[b]:
                j = rnd.randrange(len(T[b]))
                T3 = [list(r) for r in T]
                xold = T3[b][j]
                T3[b][j] = x
                for f in range(-1, 5):
                    chk("overwrite", _tc(T3, n, f) == _tc(T, n, f) - (f == xold) + (f == x), (T, b, j, x, f))
                chk("overwrite_size", _ts(T3, n) == _ts(T, n), (T, b, j))
                T4 = [list(r) for r in T]
                y = T4[b][rnd.randrange(len(T4[b]))]
                T4[b].remove(y)
                for f in range(-1, 5):
                    chk("remove", _tc(T4, n, f) == _tc(T, n, f) - (f == y), (T, b, y, f))
                chk("remove_size", _ts(T4, n) == _ts(T, n) - 1, (T, b, y))
        T5 = [list(r) for r in T] + [[]]
        for f in range(-1, 5):
            chk("outer_append_empty", _tc(T5, n + 1, f) == _tc(T, n, f), (T, f))
        chk("outer_append_empty_size", _ts(T5, n + 1) == _ts(T, n), (T,))
        bk = [rnd.randrange(0, 4) for _ in range(rnd.randrange(0, 4))]
        T6 = [list(b_) for b_ in T] + [bk]
        for f in range(-1, 5):
            chk("outer_append", _tc(T6, n + 1, f) == _tc(T, n, f) + bk.count(f), (T, bk, f))
        chk("outer_append_size", _ts(T6, n + 1) == _ts(T, n) + len(bk), (T, bk))
    return cases, failures
