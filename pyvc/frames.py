"""Syntactic may-write closure: which fields of `self` (or of another parameter) a method can write, directly or
through calls of other methods of the same class - computed from the AST for EVERY method, with or without a
contract.  Used for the frame properties (C19: queries never change a structure; C13: operands are not
modified; C15: the capacity changes only in the expansion code)."""
from __future__ import annotations

import ast

MUTATING_CALLS = {"append", "extend", "pop", "remove", "insert", "clear", "sort", "fromlist", "update", "setdefault",
                  "popitem", "increment", "decrement", "set_bit", "clear_bit", "seek", "write", "flush", "close"}


def _root_attr(node):
    """for an expression rooted at  <name>.<attr>...  return (name, attr)"""
    while isinstance(node, (ast.Subscript, ast.Attribute, ast.Call)):
        if isinstance(node, ast.Attribute) and isinstance(node.value, ast.Name):
            return node.value.id, node.attr
        node = node.value if not isinstance(node, ast.Call) else node.func
    return None


def _alias_sources(e):
    """expressions whose value may be (part of) an existing object: yields Name / Attribute / Subscript nodes.
    Results of calls are taken to be fresh objects, except the transparent iteration helpers."""
    if isinstance(e, (ast.Name, ast.Attribute, ast.Subscript)):
        yield e
    elif isinstance(e, ast.IfExp):
        yield from _alias_sources(e.body)
        yield from _alias_sources(e.orelse)
    elif isinstance(e, ast.BoolOp):
        for v in e.values:
            yield from _alias_sources(v)
    elif isinstance(e, ast.NamedExpr):
        yield from _alias_sources(e.value)
    elif isinstance(e, (ast.Tuple, ast.List)):
        for v in e.elts:
            yield from _alias_sources(v)
    elif isinstance(e, ast.Call) and isinstance(e.func, ast.Name) and e.func.id in ("enumerate", "zip", "reversed", "iter"):
        for a in e.args:
            yield from _alias_sources(a)
    elif isinstance(e, ast.Call) and isinstance(e.func, ast.Attribute) and e.func.attr in ("items", "values", "get"):
        yield from _alias_sources(e.func.value)


def local_aliases(fn: ast.FunctionDef):
    """flow-insensitive may-alias map: local name -> set of (root name, attribute) whose object (or a part of it) the
    local may denote (assignment, for-target, conditional expression, tuple unpacking; to a fixpoint)"""
    params = {a.arg for a in fn.args.args + fn.args.kwonlyargs}
    alias = {}

    def roots(e):
        out = set()
        for src in _alias_sources(e):
            if isinstance(src, ast.Name):
                out |= alias.get(src.id, set())
            else:
                ra = _root_attr(src)
                if ra:
                    if ra[0] in alias and ra[0] not in params:
                        out |= alias[ra[0]]          # a part of something a local aliases
                    else:
                        out.add(ra)
        return out

    def bind(target, r):
        changed = False
        if isinstance(target, ast.Name):
            if target.id not in params and not r <= alias.get(target.id, set()):
                alias.setdefault(target.id, set()).update(r)
                changed = True
        elif isinstance(target, (ast.Tuple, ast.List)):
            for t in target.elts:
                changed |= bind(t, r)
        elif isinstance(target, ast.Starred):
            changed |= bind(target.value, r)
        return changed

    changed = True
    while changed:
        changed = False
        for n in ast.walk(fn):
            if isinstance(n, ast.Assign):
                r = roots(n.value)
                for t in n.targets:
                    changed |= bind(t, r)
            elif isinstance(n, ast.AnnAssign) and n.value is not None:
                changed |= bind(n.target, roots(n.value))
            elif isinstance(n, (ast.For, ast.comprehension)):
                changed |= bind(n.target, roots(n.iter))
            elif isinstance(n, ast.NamedExpr):
                changed |= bind(n.target, roots(n.value))
            elif isinstance(n, ast.withitem) and n.optional_vars is not None:
                changed |= bind(n.optional_vars, roots(n.context_expr))
    return alias


def direct_writes(fn: ast.FunctionDef):
    """{(receiver name, attribute)} written by assignments / augmented assignments / mutating method calls - directly
    or through a local that may alias (a part of) the attribute - and the set of (receiver name, method) calls"""
    writes, calls = set(), set()
    alias = local_aliases(fn)

    def via_local(node):
        """a write through  <local>[...] / <local>.attr / <local>.mutator()  hits everything the local may alias"""
        base = node
        while isinstance(base, (ast.Subscript, ast.Attribute)):
            base = base.value
        if isinstance(base, ast.Name) and base.id in alias:
            return alias[base.id]
        return set()

    for n in ast.walk(fn):
        targets = []
        if isinstance(n, ast.Assign):
            targets = n.targets
        elif isinstance(n, (ast.AugAssign, ast.AnnAssign)):
            targets = [n.target]
        elif isinstance(n, ast.Delete):
            targets = n.targets
        for t in targets:
            for sub in ([t] if not isinstance(t, (ast.Tuple, ast.List)) else t.elts):
                ra = _root_attr(sub) if not isinstance(sub, ast.Name) else None
                if ra and not (ra[0] in alias):
                    writes.add(ra)
                if not isinstance(sub, ast.Name):
                    writes |= via_local(sub)
                elif isinstance(n, ast.AugAssign) and sub.id in alias:
                    writes |= alias[sub.id]          # `x += ...` mutates a list / array in place
        if isinstance(n, ast.Call) and isinstance(n.func, ast.Attribute):
            recv = n.func.value
            if isinstance(recv, ast.Name):
                calls.add((recv.id, n.func.attr))
            elif isinstance(recv, ast.Call) and isinstance(recv.func, ast.Name) and recv.func.id == "super":
                calls.add(("self", n.func.attr))
            if n.func.attr in MUTATING_CALLS:
                ra = _root_attr(recv)
                if ra and not (ra[0] in alias):
                    writes.add(ra)
                writes |= via_local(recv)
    return writes, calls


def class_closure(repo, cls):
    """method name -> set of attribute names of `self` it may write (transitively through self.m() calls and
    property setters)"""
    methods = {}
    for fi in repo.all_methods(cls):
        key = fi.name if fi.kind != "setter" else fi.name + ".setter"
        methods[key] = fi
    direct = {}
    calls = {}
    setters = {fi.name for fi in repo.all_methods(cls) if fi.kind == "setter"}
    for k, fi in methods.items():
        w, c = direct_writes(fi.node)
        selfname = fi.node.args.args[0].arg if fi.node.args.args and fi.kind not in ("staticmethod",) else None
        direct[k] = {a for r, a in w if r == selfname}
        calls[k] = {m for r, m in c if r == selfname}
        # assignment through a property setter
        for a in list(direct[k]):
            if a in setters:
                calls[k].add(a + ".setter")
    closure = {k: set(v) for k, v in direct.items()}
    changed = True
    while changed:
        changed = False
        for k in closure:
            for m in calls[k]:
                for cand in (m, mangle_name(cls, m, repo)):
                    if cand in closure and not closure[cand] <= closure[k]:
                        closure[k] |= closure[cand]
                        changed = True
    return closure, methods


def mangle_name(cls, m, repo):
    return m


def param_writes(fn: ast.FunctionDef, param):
    """attributes of a non-self parameter written directly by the function"""
    w, _ = direct_writes(fn)
    return {a for r, a in w if r == param}


def check_expectations(repo, read_only, operands, writers, classes=None):
    """returns a list of obligation records {name, status, detail} (backend: syntactic frame analysis)"""
    out = []
    for cls, names in read_only.items():
        if classes is not None and cls not in classes:
            continue
        if cls not in repo.classes:
            out.append({"name": f"S.{cls}.class_exists", "status": "failed", "detail": "class not found"})
            continue
        closure, methods = class_closure(repo, cls)
        for m in names:
            if m not in closure:
                # a read-only member that no longer exists is not a frame violation
                continue
            w = sorted(closure[m])
            out.append({"name": f"S.{cls}.{m}.writes_no_field_of_self", "status": "proved" if not w else "failed",
                        "detail": f"may write {w}" if w else ""})
    for cls, m, param in operands:
        if classes is not None and cls not in classes:
            continue
        fi = repo.find_method(cls, m) if cls in repo.classes else None
        if fi is None:
            continue
        w = sorted(param_writes(fi.node, param))
        # calls of methods on the operand that can write
        _, calls = direct_writes(fi.node)
        oc = sorted(c for r, c in calls if r == param)
        bad = []
        if oc:
            pcls = cls
            closure, _ = class_closure(repo, pcls)
            bad = [c for c in oc if closure.get(c)]
        ok = not w and not bad
        out.append({"name": f"S.{cls}.{m}.operand_{param}_not_modified", "status": "proved" if ok else "failed",
                    "detail": f"writes {w} calls {bad}" if not ok else ""})
    for (cls, field), allowed in writers.items():
        if classes is not None and cls not in classes:
            continue
        if cls not in repo.classes:
            continue
        for fi in repo.all_methods(cls):
            w, _ = direct_writes(fi.node)
            selfname = fi.node.args.args[0].arg if fi.node.args.args else None
            if (selfname, field) in w:
                ok = fi.name in allowed
                out.append({"name": f"S.{cls}.{fi.name}.may_write_{field}", "status": "proved" if ok else "failed",
                            "detail": "" if ok else f"{fi.name} assigns {field} but only {allowed} may"})
    return out
