"""Per-function verification driver: build the symbolic pre-state from the contract, run the
real body, turn exits into obligations, discharge them."""
from __future__ import annotations

import ast
import time
import traceback

import z3

from . import lib_models as LM
from . import theories as TH
from .api import CLASSES, CONTRACTS, LEMMAS, Contract
from .execs import Executor
from .frontend import FuncInfo, strip_docstring
from .sym import Engine, Exit, Obligation, State, Unsupported
from .values import (TObj, TStr, VBool, VClass, VInt, VNone, VRef, VSeq, VStr, VStruct, fresh_name, parse_type)


class FuncResult:
    def __init__(self, key, ctx):
        self.key, self.ctx = key, ctx
        self.obligations = []      # list of dict(name, status, time, backend, line, kind)
        self.unsupported = None
        self.error = None
        self.file = None
        self.span = None
        self.inlined = []
        self.lib_used = []
        self.callees = []
        self.paths = 0
        self.trusted = False
        self.vacuous = False


ANNOT_TYPES = {"int": "int", "bool": "bool", "float": "float", "str": "key", "KeyT": "key",
               "HashResultsT": "list[int]", "bytes": "bytes"}


def find_impl(repo, c: Contract, ctx):
    """FuncInfo of the body to verify for contract c with receiver class ctx"""
    parts = c.key.split(".")
    if c.kind == "function":
        fi = repo.funcs.get(c.key)
        if fi is None and c.key.count(".") >= 3:
            # nested function: module.outer.inner
            outer_key, inner = c.key.rsplit(".", 1)
            outer = repo.funcs.get(outer_key)
            if outer is not None:
                for n in ast.walk(outer.node):
                    if isinstance(n, ast.FunctionDef) and n.name == inner and n is not outer.node:
                        return FuncInfo(n, outer.module, None, "function", outer.path)
        return fi
    cls, name = parts[0], parts[1]
    if "@" in name:
        # "Base.method@Receiver": the body defined in Base, executed with a Receiver object
        name = name.split("@")[0]
        return repo.classes[cls].methods.get(name) if cls in repo.classes else None
    if c.kind == "property":
        return repo.find_getter(ctx or cls, name)
    if c.kind == "setter":
        return repo.find_setter(ctx or cls, name)
    fi = repo.find_method(ctx or cls, name)
    if fi is not None and (ctx or cls) == cls and fi.cls != cls and fi.kind == "method" and cls in repo.classes:
        # the contract is written for a method DEFINED in `cls`, but `cls` (now) inherits it: for a `cls` receiver the
        # call behaves exactly like `return super().<name>(<same arguments>)` written in `cls`.  Used when the
        # inherited body has its own contract for this receiver class (which carries its loop invariants); otherwise
        # the inherited body itself is verified against this contract.
        base = CONTRACTS.get(f"{fi.cls}.{name}")
        if f"{fi.cls}.{name}@{cls}" in CONTRACTS or (base is not None and cls in base.contexts):
            return inherited_stub(repo, cls, fi)
    return fi


def inherited_stub(repo, cls, base_fi):
    a = base_fi.node.args
    if a.vararg or a.kwarg or a.kwonlyargs or a.posonlyargs:
        return base_fi
    names = [x.arg for x in a.args]
    call = f"super().{base_fi.name}({', '.join(names[1:])})"
    defaults = {}
    src = f"def {base_fi.name}({', '.join(names)}):\n    return {call}\n"
    node = ast.parse(src).body[0]
    node.args = a                   # keep annotations and defaults of the inherited signature
    for n in ast.walk(node):
        if hasattr(n, "lineno"):
            n.lineno = n.end_lineno = repo.classes[cls].node.lineno
    csrc = repo.classes[cls]
    fi = FuncInfo(node, csrc.module, cls, "method", base_fi.path)
    fi.inherited_from = base_fi.cls
    return fi


TRANSPARENT_DECORATORS = {"property", "classmethod", "staticmethod", "wraps(func)"}


def run_function(eng: Engine, c: Contract, ctx, fi: FuncInfo, alias=None, lemma_node=None, variant=None):
    """symbolically execute one body; returns (executor, env0, pre, state list)"""
    ex = Executor(eng, funcname=(f"{ctx}::{c.key}" if ctx and not c.key.startswith(ctx + ".") else c.key)
                  + (f"[alias {alias[0]}={alias[1]}]" if alias else "")
                  + (f"[variant {variant}]" if variant else ""),
                  module=fi.module if fi else None, cls=fi.cls if fi else None, contract=c)
    if c.kind == "lemma":
        ex.nodeprefix = "P"
        if ex.funcname.startswith("P."):
            ex.funcname = ex.funcname[2:]
    st = State()
    env = {}
    node = fi.node if fi is not None else lemma_node
    for d in getattr(node, "decorator_list", []) if fi is not None else []:
        text = ast.unparse(d)
        if text in TRANSPARENT_DECORATORS or text.endswith(".setter") or text in c.decorators:
            continue
        raise Unsupported(f"decorator @{text} on {c.key}: a call runs the decorator's wrapper, which the contract does not "
                          "describe")
    argnames = [a.arg for a in node.args.args]
    annots = {a.arg: a.annotation for a in node.args.args}
    if node.args.vararg or node.args.kwarg:
        # *args / **kwargs are accepted only when unused by the body (default_md5 / default_sha256)
        pass
    first = True
    for a in argnames:
        if first and fi is not None and fi.cls is not None and fi.kind in ("method", "property", "setter"):
            first = False
            env[a] = ex.fresh(st, TObj(ctx), "self")
            preset_consts(ex, st, env[a], ctx)
            continue
        if first and fi is not None and fi.kind == "classmethod":
            first = False
            env[a] = VClass(ctx)
            continue
        first = False
        ts = c.params.get(a)
        if variant and a in variant:
            ts = variant[a]
        if ts is None:
            an = annots.get(a)
            if isinstance(an, ast.Name) and an.id in ANNOT_TYPES:
                ts = ANNOT_TYPES[an.id]
            else:
                raise Unsupported(f"no type for parameter {a} of {c.key}")
        if alias and alias[0] == a:
            env[a] = env[alias[1]]
            continue
        t = parse_type(ts)
        env[a] = ex.fresh(st, t, a)
        if isinstance(t, TObj):
            preset_consts(ex, st, env[a], t.cls)
        if isinstance(t, TStr):
            st.pc += LM.key_facts(env[a].t)
    for g, ts in c.ghost.items():
        env[g] = ex.fresh(st, parse_type(ts), g)
    st.env = dict(env)
    for lname, ltext in c.let:
        env[lname] = ex.spec_eval(st, ltext, env, f"{c.key}.let.{lname}")
    st.env = dict(env)
    ex.let_names = [n for n, _ in c.let]
    # preconditions
    for name, text in c.requires:
        st.pc.append(ex.spec_truth(st, text, env, f"{c.key}.requires.{name}"))
    # fields the contract promises to rebind
    keys = set()
    for path in c.rebinds:
        tree = ast.parse(path, mode="eval").body
        if isinstance(tree, ast.Attribute) and isinstance(tree.value, ast.Name) and tree.value.id in env \
                and isinstance(env[tree.value.id], VRef):
            keys.add(("field", env[tree.value.id].loc, tree.attr))
    ex.rebind_keys = keys
    pre = st.fork()
    ex.pre = pre
    ex.old_stack = [pre]
    ex.env0 = env
    body = strip_docstring(node.body)
    loops = sorted((n for n in ast.walk(node) if isinstance(n, (ast.For, ast.While))), key=lambda n: (n.lineno, n.col_offset))
    ex.loop_ordinals = {id(n): i for i, n in enumerate(loops)}
    outs = ex.exec_block(body, st)
    for cur, status in outs:
        if status != "normal":
            raise Unsupported(f"{status} outside a loop")
        ex.exits.append(Exit("return", cur, value=VNone(), line=node.end_lineno))
    return ex, env, pre


def streams_mod():
    from . import streams
    return streams


def preset_consts(ex, st, ref, cls):
    """fields that are per-class constants (type code, bits per element): literal values"""
    ci = CLASSES.get(cls)
    if ci is None or not ci.consts:
        return
    obj = st.heap[ref.loc[1]]
    nf = dict(obj.fields)
    for f, val in ci.consts.items():
        if isinstance(val, str):
            nf[f] = VStr.const(val)
        elif isinstance(val, float):
            from .values import VReal
            nf[f] = VReal(z3.RealVal(repr(val)))
        elif isinstance(val, bool):
            nf[f] = VBool(val)
        elif isinstance(val, int):
            nf[f] = VInt(val)
    st.heap[ref.loc[1]] = VStruct(obj.cls, nf)


def exit_obligations(ex: Executor, c: Contract, env, pre):
    """ensures / raises / modifies obligations for every recorded exit"""
    mod_locs = modifies_locs(ex, c, env, pre)
    n_paths = 0
    for xi, e in enumerate(ex.exits):
        st = e.st
        n_paths += 1
        ex.cur_line = e.line
        tag = f"path{xi}@L{e.line}"
        if e.kind == "return" and c.kind == "lemma":
            ex.result = e.value
            for name, text in c.ensures:
                g = ex.spec_truth(st, text, env, f"{c.key}.ensures.{name}")
                ex.oblige(st, f"{tag}.ensures.{name}", g, "ensures")
            ex.result = None
            continue
        if e.kind == "return":
            # 1. must not return normally when a raises-clause applies
            for exc, spec in c.raises.items():
                if not spec.get("must", True):
                    continue
                o = pre.fork()
                o.pc = st.pc
                w = ex.spec_truth(o, spec["when"], env, f"{c.key}.raises.{exc}")
                ex.oblige(st, f"{tag}.raises.{exc}.must_raise", z3.Not(w), "raises")
            # 2. postconditions
            ex.result = e.value
            for name, text in c.ensures:
                g = ex.spec_truth(st, text, env, f"{c.key}.ensures.{name}")
                ex.oblige(st, f"{tag}.ensures.{name}", g, "ensures")
            if c.result_is is not None:
                want = ex.spec_eval(st, c.result_is, env, f"{c.key}.result_is")
                ex.spec += 1
                try:
                    g = ex.equal(st, e.value, want)
                finally:
                    ex.spec -= 1
                ex.oblige(st, f"{tag}.ensures.result_is", g, "ensures")
            ex.result = None
            # 3. frame
            frame_obligations(ex, st, pre, mod_locs, tag)
        else:
            spec = c.raises.get(e.exc)
            if spec is None:
                ex.oblige(st, f"{tag}.unexpected_exception.{e.exc}", z3.BoolVal(False), "raises")
                continue
            o = pre.fork()
            o.pc = st.pc
            w = ex.spec_truth(o, spec["when"], env, f"{c.key}.raises.{e.exc}")
            ex.oblige(st, f"{tag}.raises.{e.exc}.only_when", w, "raises")
            if spec.get("state", "unchanged") == "unchanged":
                frame_obligations(ex, st, pre, set(), tag + f".raises.{e.exc}.state")
            for name, text in spec.get("ensures", []):
                g = ex.spec_truth(st, text, env, f"{c.key}.raises.{e.exc}.{name}")
                ex.oblige(st, f"{tag}.raises.{e.exc}.{name}", g, "raises")
    return n_paths


def modifies_locs(ex, c, env, pre):
    out = set()
    for path in c.modifies:
        if path == "fs":
            out.add("fs")
            continue
        tree = ast.parse(path, mode="eval").body
        o = pre.fork()
        o.env = dict(env)
        saved = (ex.module, ex.defcls)
        ex.module, ex.defcls = None, None
        ex.spec += 1
        try:
            if isinstance(tree, ast.Name):
                v = o.env[tree.id]
                if hasattr(v, "loc"):
                    out.add(v.loc)
            else:
                loc = ex.loc_of(tree, o)
                # coarse: the top-level field of the root object
                chain = loc
                top = None
                while chain[0] in ("elem", "vfield"):
                    if chain[0] == "vfield" and chain[1][0] == "obj":
                        top = chain
                    chain = chain[1]
                out.add(top if top is not None else loc)
        finally:
            ex.spec -= 1
            ex.module, ex.defcls = saved
    return out


def frame_obligations(ex, st, pre, mod_locs, tag):
    if "fs" not in mod_locs and st.fs is not None and pre.fs is not st.fs:
        a = st.fs
        b = pre.fs if pre.fs is not None else (streams_mod().FS_DATA, streams_mod().FS_LEN, streams_mod().FS_EXISTS)
        if not all(z3.eq(x, y) for x, y in zip(a, b)):
            ex.oblige(st, f"{tag}.frame.file_system_unchanged", z3.And(*[x == y for x, y in zip(a, b)]), "frame")
    for oid, before in pre.heap.items():
        if ("obj", oid) in mod_locs:
            continue
        after = st.heap.get(oid)
        if after is None:
            continue
        if oid in st.moved:
            continue
        for f, bv in before.fields.items():
            if ("vfield", ("obj", oid), f) in mod_locs:
                continue
            av = after.fields[f]
            t = ex.eng.class_fields(before.cls)[f]
            try:
                tb, ta = ex.flat.pack(t, bv), ex.flat.pack(t, av)
            except TypeError:
                continue
            if all(z3.eq(x, y) for x, y in zip(tb, ta)):
                continue          # syntactically untouched
            eqs = []
            if isinstance(av, VSeq) and isinstance(bv, VSeq):
                eqs.append(ex.seq_equal(av, bv))
            else:
                eqs = [x == y for x, y in zip(tb, ta)]
            ex.oblige(st, f"{tag}.frame.{before.cls}.{f}_unchanged", z3.And(*eqs), "frame")


# ------------------------------------------------------------------------------------------------
# solving
# ------------------------------------------------------------------------------------------------

_BG = None


def background(eng):
    """background axioms with the names of the function symbols that make each relevant"""
    global _BG
    if _BG is not None:
        return _BG
    bg = []
    # bit lemmas, translated from their Python text by the engine itself
    ex = Executor(eng, funcname="theory")
    for name, rng, expr, trig in TH.BIT_LEMMAS:
        st = State()
        env = {v: VInt(z3.Int(f"{v}!{name}")) for v in rng}
        body = ex.spec_truth(st, expr, env, name)
        hyp = z3.And(*[z3.And(env[v].t >= lo, env[v].t <= hi) for v, (lo, hi) in rng.items()])
        pats = [ex.spec_eval(st, t, env, name).t for t in trig]
        vars_ = [env[v].t for v in rng]
        pats = [p for p in pats if all(_mentions(p, v) for v in vars_)]
        if pats:
            ax = z3.ForAll(vars_, z3.Implies(hyp, body), patterns=pats)
        else:
            ax = z3.ForAll(vars_, z3.Implies(hyp, body))
        bg.append((("band", "bor", "popcount"), ax))
    for f in TH.pow2_facts():
        bg.append((("pow2",), f))
    for f in TH.pmod_axioms():
        bg.append((("pmod",), f))
    for f in TH.smul_axioms():
        bg.append((("smul",), f))
    for f in TH.bnot_axioms():
        bg.append((("bnot",), f))
    for f in TH.rdiv_axioms():
        bg.append((("rdiv",), f))
    for f in LM.rsum_axioms():
        bg.append((("rsum",), f))
    from . import streams
    bg += streams.real_axioms()
    for f in streams.digit_axioms():
        bg.append((("digit",), f))
    for f in streams.path_axioms():
        bg.append((("resolve_path",), f))
    from . import tables
    for f in tables.nz_axioms():
        bg.append((("nzlead",), f))
    for f in tables.axioms(LM.rsum):
        bg.append((("tcount", "tsize", "lcnt", "undo_cells", "undo_hand"), f))
    _BG = bg
    return bg


def _mentions(term, var):
    from .values import _mentions as m
    return m(term, var)


def decl_names(terms):
    seen, names = set(), set()
    todo = list(terms)
    while todo:
        t = todo.pop()
        if t.get_id() in seen:
            continue
        seen.add(t.get_id())
        if z3.is_quantifier(t):
            todo.append(t.body())
            continue
        if z3.is_app(t):
            names.add(t.decl().name())
            todo.extend(t.children())
    return names


import os as _os
NO_PRESIMPLIFY = bool(_os.environ.get("PYVC_NOSIMP"))
THEORY_SYMBOLS = ("tcount", "tsize", "lcnt", "undo_cells", "undo_hand", "rsum", "digit", "popcount", "band", "bor", "fsum", "ftot")


def goal_directed_instances(ob):
    """For a goal of the shape  forall x. (R -> forall y. (S -> B)) : the goal with its bound variables replaced by
    fresh constants (equivalent: the quantifiers stand in positive positions), and the instances of the quantified
    hypotheses of the same shape at those constants (consequences of the hypotheses).  E-matching finds these instances
    only when a trigger term happens to be present - array reads at arithmetic offsets are poor triggers, and such
    proofs then depend on the names z3 sees first.  Returns (hypotheses + instances, ground goal) or None."""
    levels = []

    def sk(e):
        if z3.is_quantifier(e) and e.is_forall():
            cs = [z3.Const(fresh_name("sk_" + e.var_name(i)), e.var_sort(i)) for i in range(e.num_vars())]
            levels.append(cs)
            return sk(z3.substitute_vars(e.body(), *reversed(cs)))
        if z3.is_implies(e):
            return z3.Implies(e.arg(0), sk(e.arg(1)))
        return e
    ground = sk(ob.goal)
    if not levels:
        return None

    def inst(e, depth):
        if depth >= len(levels):
            return None
        if z3.is_quantifier(e) and e.is_forall():
            cs = levels[depth]
            if e.num_vars() != len(cs) or any(e.var_sort(i) != cs[i].sort() for i in range(len(cs))):
                return None
            body = z3.substitute_vars(e.body(), *reversed(cs))
            deeper = inst(body, depth + 1)
            return z3.And(body, deeper) if deeper is not None else body
        if z3.is_implies(e):
            r = inst(e.arg(1), depth)
            return z3.Implies(e.arg(0), r) if r is not None else None
        if z3.is_and(e):
            rs = [r for r in (inst(c, depth) for c in e.children()) if r is not None]
            return z3.And(*rs) if rs else None
        return None
    extra = [r for r in (inst(h, 0) for h in ob.pc) if r is not None]
    if not extra:
        return None
    return list(ob.pc) + extra, ground


def relevant_hypotheses(ob):
    """drop hypotheses that speak about a ghost-theory symbol the goal does not mention (dropping hypotheses is
    always sound; used as an additional attempt to keep queries small)"""
    gnames = decl_names([ob.goal])
    absent = [t for t in THEORY_SYMBOLS if t not in gnames]
    if not absent:
        return None
    keep = []
    for p in ob.pc:
        names = decl_names([p])
        if any(t in names for t in absent):
            continue
        keep.append(p)
    return keep if len(keep) < len(ob.pc) else None


def const_names(term):
    """names of the uninterpreted constants and functions in a term"""
    seen, names = set(), set()
    todo = [term]
    while todo:
        t = todo.pop()
        if t.get_id() in seen:
            continue
        seen.add(t.get_id())
        if z3.is_quantifier(t):
            todo.append(t.body())
            continue
        if z3.is_app(t):
            if t.decl().kind() == z3.Z3_OP_UNINTERPRETED:
                names.add(t.decl().name())
            todo.extend(t.children())
    return names


def reachable_hypotheses(ob):
    """hypotheses connected to the goal through shared symbols, ignoring hub symbols that occur in most of them
    (dropping hypotheses is always sound)"""
    hs = [(p, const_names(p)) for p in ob.pc]
    if len(hs) < 12:
        return None
    freq = {}
    for _, ns in hs:
        for n in ns:
            freq[n] = freq.get(n, 0) + 1
    hubs = {n for n, c in freq.items() if c > 0.4 * len(hs)}
    cur = const_names(ob.goal) - hubs
    keep = set()
    changed = True
    while changed:
        changed = False
        for i, (p, ns) in enumerate(hs):
            if i in keep:
                continue
            if (ns - hubs) & cur or not (ns - hubs):
                keep.add(i)
                if (ns - hubs) - cur:
                    cur |= (ns - hubs)
                changed = True
    if len(keep) >= len(hs):
        return None
    return [hs[i][0] for i in sorted(keep)]


def guarded_check(s, timeout_ms):
    """s.check() with a hard stop: z3's own `timeout` is not honoured in every phase (rare, load dependent); a timer
    thread interrupts the context a few seconds after the budget (ctypes releases the GIL during the call)"""
    import threading
    t = threading.Timer(timeout_ms / 1000.0 + 4.0, s.ctx.interrupt)
    t.daemon = True
    t.start()
    try:
        return s.check()
    except z3.Z3Exception:
        return z3.unknown
    finally:
        t.cancel()


def solve(eng, ob: Obligation, timeout_ms=30000, extra_axioms=(), seed=0, mbqi=False, pc=None):
    s = z3.Solver()
    s.set("timeout", timeout_ms)
    if not mbqi:
        s.set("auto_config", False)
        s.set("smt.mbqi", False)
    if seed:
        s.set("random_seed", seed)
    hyps = ob.pc if pc is None else pc
    names = decl_names(list(hyps) + [ob.goal] + list(eng.axioms_extra))
    for keys, ax in background(eng):
        if any(k in names for k in keys):
            s.add(ax)
    for ax in eng.axioms_extra:
        s.add(ax)
    for ax in extra_axioms:
        s.add(ax)
    for p in hyps:
        s.add(p if NO_PRESIMPLIFY else z3.simplify(p))
    s.add(z3.Not(ob.goal) if NO_PRESIMPLIFY else z3.simplify(z3.Not(ob.goal)))
    t0 = time.time()
    r = guarded_check(s, timeout_ms)
    dt = time.time() - t0
    status = "proved" if r == z3.unsat else ("sat" if r == z3.sat else "unknown")
    try:
        reason = s.reason_unknown() if r == z3.unknown else ""
    except z3.Z3Exception:
        reason = "canceled"
    model = None
    if r == z3.sat:
        try:
            model = s.model()
        except z3.Z3Exception:
            model = None
    return status, dt, reason, model, s


SPEC_WORDS = {"old", "at_entry", "implies", "result", "self", "cls", "all", "any", "sum", "len", "range", "min", "max", "abs",
              "True", "False", "None", "int", "bool", "isinstance", "allkeys", "same", "_i", "_n", "_it", "str", "bytes",
              "float", "list", "tuple", "enumerate", "sorted", "type"}


def contract_local_names(c):
    """free names used by the parts of a contract that talk about LOCALS of the body (loop invariants, declared
    local types), bound variables of generators excluded"""
    names = set(c.locals)
    for spec in c.loops.values():
        for _, text in spec.get("invariant", []):
            try:
                tree = ast.parse(text, mode="eval")
            except SyntaxError:
                continue
            bound = set()
            for n in ast.walk(tree):
                if isinstance(n, ast.comprehension):
                    for t in ast.walk(n.target):
                        if isinstance(t, ast.Name):
                            bound.add(t.id)
            for n in ast.walk(tree):
                if isinstance(n, ast.Name) and n.id not in bound:
                    names.add(n.id)
    return names


def function_locals(node):
    out = {a.arg for a in node.args.args + node.args.kwonlyargs}
    for n in ast.walk(node):
        if isinstance(n, ast.Name) and isinstance(n.ctx, ast.Store):
            out.add(n.id)
    return out


def missing_locals(eng, c, fi):
    """locals the contract's invariants mention that the body no longer has (a renamed local), and the body's locals
    the contract never mentions (the candidates for what they are called now)"""
    if fi is None or c.kind == "lemma":
        return [], []
    have = function_locals(fi.node)
    known = set(have) | SPEC_WORDS | set(eng.spec_funcs) | {n for n, _ in c.let} | set(c.ghost) | set(eng.repo.classes) \
        | set(eng.repo.consts.get(fi.module, {})) | set(eng.repo.imports.get(fi.module, {}))
    from .sym import CONST_NAMES, EXC_NAMES
    known |= set(CONST_NAMES) | set(EXC_NAMES)
    used = contract_local_names(c)
    missing = sorted(n for n in used if n not in known)
    params = {a.arg for a in fi.node.args.args}
    cands = sorted(n for n in have if n not in used and n not in params and not n.startswith("_"))
    return missing, cands


class _Rename(ast.NodeTransformer):
    def __init__(self, m):
        self.m = m

    def visit_Name(self, n):
        return ast.copy_location(ast.Name(id=self.m.get(n.id, n.id), ctx=n.ctx), n)


def renamed_contract(c, mapping):
    import copy
    c2 = copy.copy(c)
    c2.loops = {}
    for k, spec in c.loops.items():
        sp = dict(spec)
        sp["invariant"] = [(nm, ast.unparse(_Rename(mapping).visit(ast.parse(text, mode="eval"))))
                           for nm, text in spec.get("invariant", [])]
        c2.loops[k] = sp
    c2.locals = {mapping.get(k, k): v for k, v in c.locals.items()}
    return c2


def _loops_of(node):
    return sorted((n for n in ast.walk(node) if isinstance(n, (ast.For, ast.While))), key=lambda n: (n.lineno, n.col_offset))


def accumulator_loops(node):
    """loops that only build a list or a sum and are directly preceded by the initialisation of the accumulator:
         X = []   ; for T in IT: X.append(E)            ->  X = [E for T in IT]
         X = []   ; for T in IT: if C: X.append(E)      ->  X = [E for T in IT if C]
         X = 0    ; for T in IT: X += E                 ->  X = sum(E for T in IT)
         X = array(TC) ; for T in IT: [if C:] X.append(E)   ->  X = array(TC, [E for T in IT [if C]])
       returns [(block (list of statements), index of the initialisation, replacement Assign)]"""
    out = []
    for parent in ast.walk(node):
        for fld in ("body", "orelse", "finalbody"):
            block = getattr(parent, fld, None)
            if not isinstance(block, list):
                continue
            for i in range(len(block) - 1):
                a, f = block[i], block[i + 1]
                if not (isinstance(a, ast.Assign) and len(a.targets) == 1 and isinstance(a.targets[0], ast.Name)
                        and isinstance(f, ast.For) and not f.orelse and len(f.body) == 1):
                    continue
                x = a.targets[0].id
                st_ = f.body[0]
                cond = None
                if isinstance(st_, ast.If) and not st_.orelse and len(st_.body) == 1:
                    cond, st_ = st_.test, st_.body[0]
                uses_x = lambda e: any(isinstance(n, ast.Name) and n.id == x for n in ast.walk(e))   # noqa: E731
                new = None
                empty_list = isinstance(a.value, ast.List) and not a.value.elts
                # array(TC) with no initialiser is an empty typed array: the result is array(TC, [ ... ])
                empty_array = isinstance(a.value, ast.Call) and isinstance(a.value.func, ast.Name) and a.value.func.id == "array" \
                    and len(a.value.args) == 1 and not a.value.keywords
                if (empty_list or empty_array) and isinstance(st_, ast.Expr) \
                        and isinstance(st_.value, ast.Call) and isinstance(st_.value.func, ast.Attribute) \
                        and st_.value.func.attr == "append" and isinstance(st_.value.func.value, ast.Name) \
                        and st_.value.func.value.id == x and len(st_.value.args) == 1 and not st_.value.keywords:
                    e = st_.value.args[0]
                    if not uses_x(e) and not uses_x(f.iter) and not (cond is not None and uses_x(cond)):
                        comp = ast.ListComp(elt=e, generators=[ast.comprehension(target=f.target, iter=f.iter,
                                                                                   ifs=[cond] if cond is not None else [], is_async=0)])
                        if empty_array:
                            comp = ast.Call(func=a.value.func, args=[a.value.args[0], comp], keywords=[])
                        new = ast.Assign(targets=a.targets, value=comp)
                elif isinstance(a.value, ast.Constant) and a.value.value == 0 and cond is None and isinstance(st_, ast.AugAssign) \
                        and isinstance(st_.op, ast.Add) and isinstance(st_.target, ast.Name) and st_.target.id == x:
                    e = st_.value
                    if not uses_x(e) and not uses_x(f.iter):
                        gen = ast.GeneratorExp(elt=e, generators=[ast.comprehension(target=f.target, iter=f.iter, ifs=[], is_async=0)])
                        new = ast.Assign(targets=a.targets, value=ast.Call(func=ast.Name(id="sum", ctx=ast.Load()), args=[gen], keywords=[]))
                if new is not None:
                    out.append((block, i, ast.fix_missing_locations(ast.copy_location(new, f))))
    return out


def fold_loops(fi, picks):
    """a copy of the function in which the picked accumulator loops (indices into accumulator_loops of the copy) are
    replaced by the comprehension they compute"""
    import copy
    node = copy.deepcopy(fi.node)
    cands = accumulator_loops(node)
    for k in sorted(picks, key=lambda k_: -cands[k_][1]):
        block, i, new = cands[k]
        block[i:i + 2] = [new]
    f2 = FuncInfo(node, fi.module, fi.cls, fi.kind, fi.path)
    return f2


def preinline_helpers(eng, fi, ctx):
    """a copy of the function in which statement-level calls  self.helper(a, b)  of helpers WITHOUT contract that
    contain loops are replaced by the helper's body (parameters replaced by the argument names, the helper's other
    locals renamed): a loop that was moved into a new helper is then a loop of the body again and meets its invariant.
    Returns None if there is nothing to inline."""
    import copy
    from .frontend import mangle
    repo = eng.repo
    cls = ctx or fi.cls
    if cls is None or cls not in repo.classes:
        return None
    node = copy.deepcopy(fi.node)
    changed = [False]
    selfname = node.args.args[0].arg if node.args.args else "self"

    def expand(stmt):
        if not (isinstance(stmt, ast.Expr) and isinstance(stmt.value, ast.Call) and isinstance(stmt.value.func, ast.Attribute)
                and isinstance(stmt.value.func.value, ast.Name) and stmt.value.func.value.id == selfname
                and not stmt.value.keywords and all(isinstance(a, ast.Name) for a in stmt.value.args)):
            return None
        name = stmt.value.func.attr
        callee = repo.find_method(cls, name) or repo.find_method(cls, mangle(fi.cls, name) if fi.cls else name)
        if callee is None or callee.kind != "method" or callee.node.decorator_list or not _loops_of(callee.node):
            return None
        if any(k.split("@")[0].endswith("." + callee.name) and k.split(".")[0] in repo.mro(cls) for k in CONTRACTS):
            return None
        if any(isinstance(n, ast.Return) and n.value is not None for n in ast.walk(callee.node)) or \
                any(isinstance(n, (ast.Yield, ast.YieldFrom)) for n in ast.walk(callee.node)):
            return None
        params = [a.arg for a in callee.node.args.args]
        if len(params) - 1 != len(stmt.value.args) or callee.node.args.vararg or callee.node.args.kwarg:
            return None
        # (a helper that rebinds one of its parameters would rebind the caller's variable once inlined)
        if any(isinstance(n, ast.Name) and isinstance(n.ctx, (ast.Store, ast.Del)) and n.id in params for n in ast.walk(callee.node)):
            return None
        if any(isinstance(n, (ast.FunctionDef, ast.Lambda, ast.Global, ast.Nonlocal)) for b in callee.node.body for n in ast.walk(b)):
            return None
        mapping = {params[0]: selfname}
        mapping.update({p_: a.id for p_, a in zip(params[1:], stmt.value.args)})
        body = copy.deepcopy([b for b in callee.node.body
                              if not (isinstance(b, ast.Expr) and isinstance(b.value, ast.Constant))])
        locals_ = {n.id for b in body for n in ast.walk(b) if isinstance(n, ast.Name) and isinstance(n.ctx, ast.Store)}
        for l in locals_:
            if l not in mapping:
                mapping[l] = f"_inl_{callee.name.strip('_')}_{l}"
        for b in body:
            for n in ast.walk(b):
                if isinstance(n, ast.Name) and n.id in mapping:
                    n.id = mapping[n.id]
            ast.copy_location(b, stmt)
        # a bare `return` of the helper would leave the CALLER when inlined: only helpers that fall off their end
        if any(isinstance(n, ast.Return) for b in body for n in ast.walk(b)):
            return None
        changed[0] = True
        return body

    def walk(block):
        i = 0
        while i < len(block):
            st_ = block[i]
            new = expand(st_)
            if new is not None:
                block[i:i + 1] = new
                i += len(new)
                continue
            for fld in ("body", "orelse", "finalbody"):
                sub = getattr(st_, fld, None)
                if isinstance(sub, list) and sub and isinstance(sub[0], ast.stmt):
                    walk(sub)
            i += 1
    walk(node.body)
    if not changed[0]:
        return None
    ast.fix_missing_locations(node)
    return FuncInfo(node, fi.module, fi.cls, fi.kind, fi.path)


def verify_one(eng, key, ctx=None, timeout_ms=30000, alias=None):
    """verify contract `key`; if the body has MORE loops than the contract annotates (a comprehension was rewritten as
    an explicit accumulator loop), the surplus is looked for among the loops of the shape `X = []; for ..: X.append(E)` /
    `X = 0; for ..: X += E`, which are executed as the comprehension they compute (a checked guess: accepted only if every
    obligation is then proved); any other mismatch between the loops of the body and the loops of the contract is
    outside the subset - attaching an invariant to the wrong loop would report unprovable obligations."""
    if key in LEMMAS or key not in CONTRACTS:
        return verify_renamed(eng, key, ctx, timeout_ms, alias)
    c = CONTRACTS[key]
    fi = find_impl(eng.repo, c, ctx)
    if fi is None or c.trusted or c.bounded_only:
        return verify_renamed(eng, key, ctx, timeout_ms, alias)
    nloops, want = len(_loops_of(fi.node)), len(c.loops)
    if nloops == want:
        return verify_renamed(eng, key, ctx, timeout_ms, alias)
    res = FuncResult(key, ctx)
    res.file, res.span = fi.path, fi.span
    d = nloops - want
    cands = accumulator_loops(fi.node)
    if d > 0 and len(cands) >= d:
        import itertools
        for tried, picks in enumerate(itertools.combinations(range(len(cands)), d)):
            if tried >= 6:
                break
            r = verify_renamed(eng, key, ctx, min(timeout_ms, 10000) if len(cands) > d else timeout_ms, alias, fold_loops(fi, picks))
            if not r.unsupported and not r.error and r.obligations and all(o["status"] == "proved" for o in r.obligations):
                r.lib_used = sorted(set(r.lib_used) | {f"{key}: {d} accumulator loop(s) (X = []; for ..: X.append(E) / X = 0; for ..: "
                                                       "X += E) executed as the comprehension they compute"})
                return r
            if len(cands) == d:
                return r          # the only possible reading: its verdict (failed obligations included) stands
    if d < 0:
        # a loop that was moved into a new helper without contract: put the helper's body back (at the AST level) and
        # see whether the loops then match
        fi2 = preinline_helpers(eng, fi, ctx)
        if fi2 is not None and len(_loops_of(fi2.node)) == want:
            r = verify_renamed(eng, key, ctx, timeout_ms, alias, fi2)
            if not r.unsupported and not r.error and r.obligations and all(o["status"] == "proved" for o in r.obligations):
                r.lib_used = sorted(set(r.lib_used) | {f"{key}: a helper without contract that contains a loop was put back into "
                                                       "the body (its parameters replaced by the argument names) before verification"})
                return r
    if d < 0:
        # FEWER loops than annotated (a loop was rewritten as a comprehension, or removed): the loops that are left keep
        # their order; which annotated loops they are is again a checked guess
        import copy
        import itertools
        keep_sets = list(itertools.combinations(range(want), nloops))[:6]
        ords = sorted(c.loops)
        for keep in keep_sets:
            c2 = copy.copy(c)
            c2.loops = {i: c.loops[ords[k]] for i, k in enumerate(keep)}
            r = verify_renamed(eng, key, ctx, timeout_ms if len(keep_sets) == 1 else min(timeout_ms, 10000), alias, None, c2)
            if not r.unsupported and not r.error and r.obligations and all(o["status"] == "proved" for o in r.obligations):
                r.lib_used = sorted(set(r.lib_used) | {f"{key}: the body has {nloops} of the {want} loops the contract annotates; "
                                                       f"invariants of the annotated loops {[ords[k] for k in keep]} used"})
                return r
            if len(keep_sets) == 1:
                return r
    res.unsupported = (f"the body has {nloops} loops, the contract annotates {want} ({len(cands)} of the loops are plain "
                       "accumulator loops): the invariants cannot be attached to the right loops")
    return res


def verify_renamed(eng, key, ctx=None, timeout_ms=30000, alias=None, fi_override=None, c_override=None):
    """verify contract `key`.  If its loop invariants mention locals the body no longer has (a harmless renaming of a
    local), the invariants are tried under each assignment of the missing names to unmentioned locals of the body; an
    assignment is accepted only if every obligation is then PROVED (the guess is checked, so this cannot make a wrong
    body verify with a wrong invariant: any invariant that is proved inductive and strong enough is a valid one)."""
    if key in LEMMAS or key not in CONTRACTS:
        return _verify_with(eng, key, ctx, timeout_ms, alias, None)
    c = c_override or CONTRACTS[key]
    fi = fi_override or find_impl(eng.repo, c, ctx)
    missing, cands = missing_locals(eng, c, fi)
    if not missing:
        return _verify_with(eng, key, ctx, timeout_ms, alias, c_override, fi_override)
    import itertools
    tried = 0
    if len(missing) <= 3 and len(cands) >= len(missing):
        for perm in itertools.permutations(cands, len(missing)):
            tried += 1
            if tried > 24:
                break
            mapping = dict(zip(missing, perm))
            r = _verify_with(eng, key, ctx, min(timeout_ms, 10000), alias, renamed_contract(c, mapping), fi_override)
            if not r.unsupported and not r.error and r.obligations and all(o["status"] == "proved" for o in r.obligations):
                r.lib_used = sorted(set(r.lib_used) | {f"contract of {key}: invariants written for locals {missing} "
                                                       f"applied to the locals {list(perm)} of the current body "
                                                       "(renamed locals; accepted because every obligation is proved)"})
                return r
    res = FuncResult(key, ctx)
    if fi is not None:
        res.file, res.span = fi.path, fi.span
    res.unsupported = (f"the loop invariants of the contract mention locals {missing} that the body no longer has, and no "
                       f"assignment to its other locals {cands} makes the proof go through ({tried} tried)")
    return res


def _verify_with(eng, key, ctx, timeout_ms, alias, override, fi_override=None):
    variant = None
    if isinstance(alias, dict):
        variant, alias = alias, None
    elif isinstance(alias, (tuple, list)) and alias and isinstance(alias[0], (tuple, list)):
        variant, alias = dict(alias), None
    """verify contract `key` for receiver class ctx; returns FuncResult"""
    res = FuncResult(key, ctx)
    lemma_node = None
    if key in LEMMAS:
        lm = LEMMAS[key]
        kw = dict(lm.contract_kw)
        kw.pop("variants", None)
        c = Contract(key, kind="lemma", **kw)
        lemma_node = ast.parse(lm.source).body[0]
        fi = None
    else:
        c = override or CONTRACTS[key]
        fi = fi_override or find_impl(eng.repo, c, ctx)
        if fi is None:
            res.unsupported = f"function {key} (receiver {ctx}) not found in the working tree"
            return res
        res.file, res.span = fi.path, fi.span
    if c.trusted:
        res.trusted = True
        return res
    try:
        ex, env, pre = run_function(eng, c, ctx, fi, alias=alias, lemma_node=lemma_node, variant=variant)
        res.paths = exit_obligations(ex, c, env, pre)
    except Unsupported as e:
        res.unsupported = str(e)
        return res
    except RecursionError as e:
        res.error = "recursion: " + str(e)
        return res
    except Exception as e:     # checker error, never a verdict
        res.error = "".join(traceback.format_exception(type(e), e, e.__traceback__))[-1500:]
        return res
    res.inlined = sorted(ex.inlined)
    res.lib_used = sorted(ex.lib_used)
    res.callees = sorted(ex.trusted_used)
    # vacuity: the precondition must be satisfiable (cover); `unsat` is a checker-side failure
    cov = Obligation("cover", pre.pc, z3.BoolVal(False))
    cs, _, _, _, _ = solve(eng, cov, 5000)
    if cs == "proved":
        res.vacuous = True
    # ... and at least one exit of the body must be reachable under everything the engine ASSUMED on the way (callee
    # postconditions, ghost-theory facts, binder closures): if False is derivable on every exit, every obligation of
    # this function was discharged vacuously (this is how an unsound fact generated by the engine itself shows up)
    alive = not ex.exits
    for e in ex.exits:
        dead = False
        for mb in (False, True):
            if solve(eng, Obligation("cover", e.st.pc, z3.BoolVal(False)), 3000, mbqi=mb)[0] == "proved":
                dead = True
                break
        if not dead:
            alive = True
            break
    if not alive:
        res.vacuous = "every exit of the body is unreachable under the facts assumed on the way (inconsistent assumptions)"
    unproved = 0
    for ob in ex.obligations:
        # short attempts with different seeds first (a query that needs the whole budget is an unstable one)
        # 1. E-matching only (fails fast);  2. model-based quantifier instantiation;  3. other seeds
        status, dt, reason, model = "unknown", 0.0, "", None
        backend = "z3-" + z3.get_version_string()
        small = relevant_hypotheses(ob)
        # budgets: on the unchanged tree every obligation is discharged within ~1.5 s (see slowest_obligations in the
        # evidence); the quick tier (timeout_ms 20000) therefore spends at most ~80 s on an obligation that fails
        q = timeout_ms // 3
        plan = [(min(timeout_ms, 8000), 0, False, None)]
        gdi = goal_directed_instances(ob)
        if gdi is not None:
            plan.append((min(timeout_ms, 8000), 0, False, "instances"))
        if small is not None:
            # then fewer hypotheses (sound: a subset).  (Trying the subset FIRST was measured to be worse: where the
            # subset lacks a needed hypothesis the attempt runs into its timeout instead of failing fast.)
            plan.append((timeout_ms, 0, False, small))
        reach = reachable_hypotheses(ob)
        if reach is not None:
            plan.append((min(timeout_ms, q), 0, False, reach))
            plan.append((min(timeout_ms, q), 0, True, reach))
        plan += [(min(timeout_ms, max(q, 8000)), 0, True, None), (min(timeout_ms, q), 7, False, None),
                 (timeout_ms, 13, True, None)]
        curtailed = unproved >= 2
        if curtailed:
            # two obligations of this function are already unproved after the whole plan: the function is reported
            # anyway; the remaining ones get the quick attempts only (keeps a failing check from taking many minutes)
            plan = plan[:2]
        for tmo, seed, mbqi, hyps in plan:
            if isinstance(hyps, str):
                # the equivalent query with the goal's bound variables named and the hypotheses instantiated there
                status, d, reason, model, _ = solve(eng, Obligation(ob.name, gdi[0], gdi[1], ob.line, ob.kind, ob.func), tmo)
                dt += d
                if status == "proved":
                    backend = "z3-" + z3.get_version_string() + " ematching (hypotheses instantiated at the goal's bound variables)"
                    break
                status = "unknown"
                continue
            status, d, reason, model, _ = solve(eng, ob, tmo, seed=seed, mbqi=mbqi, pc=hyps)
            dt += d
            if status == "sat" and hyps is not None:
                status = "unknown"          # a model of a weakened query refutes nothing
                continue
            if status != "unknown":
                backend = "z3-" + z3.get_version_string() + (" mbqi" if mbqi else " ematching") \
                    + (" (hypotheses on absent theory symbols dropped)" if hyps is not None else "")
                break
            if seed == 0 and mbqi and not ("timeout" in reason or "canceled" in reason):
                break
        if status != "proved":
            unproved += 1
        res.obligations.append({"name": ob.name, "status": status, "time": round(dt, 3), "line": ob.line,
                                "kind": ob.kind, "backend": backend,
                                "reason": reason, "size": len(ob.pc),
                                **({"curtailed": True} if curtailed and status != "proved" else {})})
    res._ex = ex
    return res
