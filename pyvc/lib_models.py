"""Library contracts (trusted, enumerated).  Every model used by a run is recorded in
`ex.lib_used` and ends up in the evidence file's trusted_base."""
from __future__ import annotations

import ast
import struct as _struct

import z3

from . import theories as TH
from .sym import TH_real, Unsupported, as_int, as_real
from .values import (TBool, TFunc, TInt, TMap, TObj, TOpt, TReal, TSeq, TStr, VBool, VBoundMethod, VBuiltin, VClass,
                     VEnum, VFunc, VInt, VMap, VNone, VOpaque, VOpt, VRange, VReal, VRef, VSeq, VStr, VStream,
                     VStruct, VStructFmt, VTuple, fresh_name, parse_type)

I = z3.IntSort()
A = z3.ArraySort(I, I)

# key (str|bytes, Int-coded) views
is_str = z3.Function("is_str", I, z3.BoolSort())
utf8_arr = z3.Function("utf8_arr", I, A)
utf8_len = z3.Function("utf8_len", I, I)
ords_arr = z3.Function("ords_arr", I, A)
ords_len = z3.Function("ords_len", I, I)
is_ascii = z3.Function("is_ascii", I, z3.BoolSort())
# bytes value -> key code (for digest(key) of a bytes value) and back
bytes_key = z3.Function("bytes_key", A, I, I)
fmt_int = z3.Function("fmt_int", I, I, I)
enc_utf8 = z3.Function("enc_utf8", I, I)
BF = z3.Function("BF", I, I, I, I)          # bytesfunc(func, key, idx) -> bytes blob (Int-coded)
IF2 = z3.Function("IF2", I, I, I, I)        # intfunc(func, key, idx) -> int
# user hash strategy: HF(func, key, depth) -> list of ints
HFarr = z3.Function("HFarr", I, I, I, A)
HFlen = z3.Function("HFlen", I, I, I, I)
# simple hash: f(key, seed) -> int  (cuckoo / quotient filter hash functions)
H1 = z3.Function("H1", I, I, I, I)
# digest functions bytes -> bytes (md5: 16, sha256: 32)
DIG = z3.Function("DIG", I, I, I)          # digest(kind, bytes key) -> bytes blob
rsum = z3.Function("rsum", A, I, I, I)
seqmin = z3.Function("seqmin", A, I, I)
str_of_int = z3.Function("str_of_int", I, I)
r_log = z3.Function("r_log", z3.RealSort(), z3.RealSort())
r_exp = z3.Function("r_exp", z3.RealSort(), z3.RealSort())
r_log2 = z3.Function("r_log2", z3.RealSort(), z3.RealSort())
r_pow = z3.Function("r_pow", z3.RealSort(), z3.RealSort(), z3.RealSort())
f32 = z3.Function("f32", z3.RealSort(), z3.RealSort())
r_round = z3.Function("r_round", z3.RealSort(), I)
le_uint = z3.Function("le_uint", A, I, I, I)     # little-endian unsigned int of `width` bytes at offset


def key_encode(ex, st, key: VStr):
    """key.encode('utf-8') for a text key: a bytes value (Int-coded) with the same byte content"""
    ex.lib_used.add("str.encode('utf-8'): bytes value enc(key) whose content is utf8(key)")
    e = enc_utf8(key.t)
    i = z3.Int(fresh_name("ke"))
    st.pc += [z3.Not(is_str(e)), utf8_len(e) == utf8_len(key.t),
              z3.ForAll([i], utf8_arr(e)[i] == utf8_arr(key.t)[i], patterns=[utf8_arr(e)[i]])]
    return VStr(e)


def key_bytes(ex, st, key: VStr, how):
    """utf-8 encoding of a text key / the bytes of a bytes key, as a byte sequence"""
    ex.lib_used.add("str.encode('utf-8') / list(bytes) / map(ord, str): uninterpreted views utf8(key), ords(key) "
                    "with the axiom  ASCII text => ords == utf8")
    if how == "utf8":
        return VSeq([utf8_arr(key.t)], utf8_len(key.t), TInt(0, 255), "bytes")
    return VSeq([ords_arr(key.t)], ords_len(key.t), TInt(0, 0x10FFFF), "list")


def key_facts(key_t):
    pre = []
    if not (z3.is_const(key_t) and key_t.decl().kind() == z3.Z3_OP_UNINTERPRETED):
        k = z3.Int(fresh_name("key"))      # name compound terms: ite / not cannot occur in triggers
        pre = [k == key_t]
        key_t = k
    i = z3.Int(fresh_name("kf"))
    return pre + [utf8_len(key_t) >= 0, ords_len(key_t) >= 0,
            z3.ForAll([i], z3.And(utf8_arr(key_t)[i] >= 0, utf8_arr(key_t)[i] <= 255), patterns=[utf8_arr(key_t)[i]]),
            z3.ForAll([i], z3.And(ords_arr(key_t)[i] >= 0, ords_arr(key_t)[i] <= 0x10FFFF),
                      patterns=[ords_arr(key_t)[i]]),
            z3.Implies(z3.And(is_str(key_t), is_ascii(key_t)),
                       z3.And(ords_len(key_t) == utf8_len(key_t),
                              z3.ForAll([i], ords_arr(key_t)[i] == utf8_arr(key_t)[i],
                                        patterns=[ords_arr(key_t)[i]]))),
            # a bytes key "is" its bytes: both views coincide
            z3.Implies(z3.Not(is_str(key_t)),
                       z3.And(ords_len(key_t) == utf8_len(key_t),
                              z3.ForAll([i], ords_arr(key_t)[i] == utf8_arr(key_t)[i],
                                        patterns=[ords_arr(key_t)[i]])))]


def call_hashfunc(ex, st, fv, args, kwargs):
    if any(isinstance(a, VOpaque) and a.desc == "foreign" for a in args):
        return VOpaque("foreign")
    """call of a hashing-strategy value held in a field/parameter: uninterpreted pure function"""
    ex.lib_used.add("hash strategy parameters are pure total functions HF(func, key, depth) (C18 proves this for "
                    "the shipped strategies and the decorators)")
    if fv.kind == "bytesfunc":
        if len(args) == 2 and isinstance(args[0], VStr):
            blob = BF(fv.t, args[0].t, as_int(args[1]))
            ex.lib_used.add("ASSUMED contract on a user-supplied bytes function given to hash_with_depth_bytes: pure, "
                            "returns a bytes value of at least 8 bytes (md5: 16, sha256: 32)")
            st.pc += key_facts(blob) + [z3.Not(is_str(blob)), utf8_len(blob) >= 8]
            return VStr(blob)
        raise Unsupported("bytesfunc call shape")
    if fv.kind == "intfunc":
        if len(args) == 2 and isinstance(args[0], VStr):
            return VInt(IF2(fv.t, args[0].t, as_int(args[1])))
        if len(args) == 1 and isinstance(args[0], VStr):
            return VInt(IF2(fv.t, args[0].t, z3.IntVal(0)))
        raise Unsupported("intfunc call shape")
    if len(args) == 2 and isinstance(args[0], VStr):
        key, depth = args[0].t, as_int(args[1])
        ln = HFlen(fv.t, key, depth)
        st.pc.append(ln >= 0)
        return VSeq([HFarr(fv.t, key, depth)], ln, TInt(), "list")
    if len(args) == 1 and isinstance(args[0], VStr):
        return VInt(H1(fv.t, args[0].t, z3.IntVal(0)))
    raise Unsupported("hash function call shape")


def _seq_of(ex, st, v):
    if isinstance(v, VSeq):
        return v
    raise Unsupported(f"expected a sequence, got {v}")


def named_array(ex, st, seq: VSeq, in_binders=False):
    """a sequence whose array term is a lambda/store expression gets a named copy (so that it can occur
    in quantifier triggers); equal pointwise on the index range"""
    a = seq.comps[0]
    if z3.is_const(a) and a.decl().kind() == z3.Z3_OP_UNINTERPRETED:
        return seq
    # the same (simplified) array expression gets the same name: two mins over it are the same term
    cache = ex.__dict__.setdefault("_named_arrays", {})
    key = (z3.simplify(a).sexpr(), z3.simplify(seq.ln).sexpr())
    inside = bool(ex.binder_marks)
    if inside and not in_binders:
        inside = False          # (historic behaviour of every other caller: the definition goes to the current context)
    if inside:
        # inside a binder only terms WITHOUT bound variables can be named; the definition is a fact of the enclosing
        # context and is added when the outermost binder is left
        bound = {str(v) for vs, _ in ex.binder_marks for v in vs}
        if any(b_ in key[0] or b_ in key[1] for b_ in bound):
            return seq
    if key in cache:
        nm, fact = cache[key]
        if inside:
            ex.__dict__.setdefault("pending_named", []).append(fact)
        elif not any(z3.eq(fact, p) for p in st.pc):
            st.pc.append(fact)
        return VSeq([nm], seq.ln, seq.et, seq.kind)
    nm = z3.Const(fresh_name("arr"), A)
    j = z3.Int(fresh_name("nj"))
    body = z3.simplify(a[j])
    # two copies of the definition: one triggered by the named cell, one whose triggers z3 infers itself from the
    # abbreviated expression (inferred triggers are built after z3's own normalisation of arithmetic, so they match
    # ground terms whatever argument order that normalisation chose; hand-written arithmetic triggers do not)
    fact = z3.And(z3.ForAll([j], z3.Implies(z3.And(0 <= j, j < seq.ln), nm[j] == body), patterns=[nm[j]]),
                  z3.ForAll([j], z3.Implies(z3.And(0 <= j, j < seq.ln), body == nm[j])))
    if inside:
        ex.__dict__.setdefault("pending_named", []).append(fact)
    else:
        st.pc.append(fact)
    cache[key] = (nm, fact)
    return VSeq([nm], seq.ln, seq.et, seq.kind)


def seq_min(ex, st, seq: VSeq, line, what="min"):
    if not isinstance(seq.et, TInt):
        raise Unsupported("min/max of non-int sequence")
    seq = named_array(ex, st, seq)
    ex.lib_used.add("min()/max()/sorted() of a list: result is an element, bounds all elements")
    ex.oblige(st, f"L{line}.{what}_of_nonempty", seq.ln > 0)
    a = seq.comps[0]
    mcache = ex.__dict__.setdefault("_minmax", {})
    mkey = (what, a.sexpr(), z3.simplify(seq.ln).sexpr())
    if mkey in mcache:
        r, facts = mcache[mkey]
    else:
        r = z3.Int(fresh_name(what))
        w = z3.Int(fresh_name(what + "_at"))
        i = z3.Int(fresh_name("i"))
        cmp = (r <= a[i]) if what == "min" else (r >= a[i])
        facts = [z3.And(0 <= w, w < seq.ln, a[w] == r),
                 z3.ForAll([i], z3.Implies(z3.And(0 <= i, i < seq.ln), cmp), patterns=[a[i]])]
        mcache[mkey] = (r, facts)
    for f in facts:
        if not any(z3.eq(f, p) for p in st.pc):
            st.pc.append(f)
    return VInt(r)


def seq_sum(ex, st, seq: VSeq):
    if not isinstance(seq.et, (TInt,)):
        raise Unsupported("sum of non-int sequence")
    ex.lib_used.add("sum() of a list = rsum(list, 0, len) (finite sum with the usual unfolding axioms)")
    return VInt(rsum(seq.comps[0], z3.IntVal(0), seq.ln))


def rsum_axioms():
    a = z3.Const("a!rs", A)
    b = z3.Const("b!rs", A)
    lo, hi, k, v = z3.Ints("lo!rs hi!rs k!rs v!rs")
    i = z3.Int("i!rs")
    return [
        z3.ForAll([a, lo], rsum(a, lo, lo) == 0, patterns=[rsum(a, lo, lo)]),
        # unfold one step at the top
        # unfolding, stated over PAIRS of existing sum terms (no arithmetic inside triggers - E-matching is
        # syntactic - and no new sum terms are created, so the axioms cannot feed themselves)
        z3.ForAll([a, lo, hi, k], z3.Implies(z3.And(k == hi + 1, lo <= hi), rsum(a, lo, k) == rsum(a, lo, hi) + a[hi]),
                  patterns=[z3.MultiPattern(rsum(a, lo, k), rsum(a, lo, hi))]),
        z3.ForAll([a, lo, hi, k], z3.Implies(z3.And(k == lo + 1, lo < hi), rsum(a, lo, hi) == a[lo] + rsum(a, k, hi)),
                  patterns=[z3.MultiPattern(rsum(a, lo, hi), rsum(a, k, hi))]),
        # a sum of non-negative terms is non-negative
        z3.ForAll([a, lo, hi],
                  z3.Or(rsum(a, lo, hi) >= 0, z3.Exists([i], z3.And(lo <= i, i < hi, a[i] < 0))),
                  patterns=[rsum(a, lo, hi)]),
        z3.ForAll([a, lo, hi], z3.Implies(hi <= lo, rsum(a, lo, hi) == 0), patterns=[rsum(a, lo, hi)]),
        # extensionality on the summed range
        z3.ForAll([a, b, lo, hi],
                  z3.Or(rsum(a, lo, hi) == rsum(b, lo, hi),
                        z3.Exists([i], z3.And(lo <= i, i < hi, a[i] != b[i]))),
                  patterns=[z3.MultiPattern(rsum(a, lo, hi), rsum(b, lo, hi))]),
    ]


def streams_le_uint(a, off, w):
    from . import streams
    return streams.le_uint(a, off, w)


def call_builtin(ex, st, name, args, kwargs, node):
    line = ex.cur_line
    short = name.split(".")[-1]
    # ---- spec functions (contracts/spec.py), inlined -------------------------------------
    if name.startswith("spec."):
        return call_spec(ex, st, name[5:], args, kwargs)
    if short in ("hexlify", "unhexlify") or name in ("hex_byte", "is_hex_string", "probables.utilities.is_hex_string"):
        from . import streams
        v = args[0]
        if name.endswith("is_hex_string"):
            if isinstance(v, VNone):
                return VBool(False)
            if isinstance(v, VSeq) and v.kind == "hex":
                return VBool(True)
            if isinstance(v, VOpt) and isinstance(v.val, VSeq) and v.val.kind == "hex":
                return VBool(z3.Not(v.isnone))
            raise Unsupported("is_hex_string of something that is not a hex text")
        ex.lib_used.add("hex text = the sequence of its digit values: hexlify(b)[2i], [2i+1] = b[i] div 16, b[i] mod 16; "
                        "unhexlify(h)[i] = 16*h[2i] + h[2i+1] (odd length raises binascii.Error); letter case abstracted")
        if not isinstance(v, VSeq):
            raise Unsupported(f"{short} of {v}")
        a = v.comps[0]
        if name == "hex_byte":
            i = as_int(args[1])
            return VInt(16 * a[2 * i] + a[2 * i + 1])
        j = z3.Int("hx%j")
        if short == "hexlify":
            if v.kind.startswith("array:") and v.kind != "array:B":
                v = streams.tobytes(ex, st, v)
                a = v.comps[0]
            return VSeq([z3.Lambda([j], z3.If(j % 2 == 0, a[j / 2] / 16, a[j / 2] % 16))], 2 * v.ln, TInt(0, 15), "hex")
        if v.kind != "hex":
            raise Unsupported("unhexlify of something that is not a hex text")
        ex.oblige(st, f"L{line}.unhexlify_even_length", v.ln % 2 == 0, "safety")
        return VSeq([z3.Lambda([j], 16 * a[2 * j] + a[2 * j + 1])], v.ln / 2, TInt(0, 255), "bytes")
    # ---- functions of the repository under contract ----------------------------------------
    if name in ex.repo.funcs or name in _contract_keys():
        from .api import CONTRACTS
        c = CONTRACTS.get(name)
        fi = ex.repo.funcs.get(name)
        if c is not None:
            return ex.call_contract(st, c, None, args, kwargs, fi)
        if fi is not None:
            from .sym import _as_expression
            expr = _as_expression(fi.node.body)
            if expr is not None and name in ex.eng.inline:
                ex.inlined.add(name)
                env = ex.bind_params(st, fi, None, None, args, kwargs)
                return ex.eval_in(st, expr, env, fi.module, None)
            if fi.cls is None:
                return ex.inline_call(st, fi, None, args, kwargs)
        raise Unsupported(f"call to {name} without contract")
    if short == "len" and name == "len":
        v = args[0]
        if isinstance(v, VSeq):
            return VInt(v.ln)
        if isinstance(v, VStr):
            return VInt(z3.If(is_str(v.t), ords_len(v.t), utf8_len(v.t)))
        if isinstance(v, VMap):
            return VInt(v.card)
        if isinstance(v, VTuple):
            return VInt(len(v.items))
        raise Unsupported(f"len of {v}")
    if name == "range":
        if len(args) == 1:
            return VRange(z3.IntVal(0), as_int(args[0]))
        if len(args) == 2:
            return VRange(as_int(args[0]), as_int(args[1]))
        raise Unsupported("range with step")
    if name == "enumerate":
        return VEnum(_seq_of(ex, st, args[0]))
    if name == "min" and len(args) == 1 and isinstance(args[0], VOpaque) and args[0].desc == "dictvalues" and not kwargs:
        m = args[0].map
        kk = z3.Int(fresh_name("argmin"))
        q = z3.Int(fresh_name("mk"))
        ex.oblige(st, f"L{line}.min_of_nonempty_dict", m.card > 0)          # otherwise ValueError
        st.pc.append(m.dom[kk])
        st.pc.append(z3.ForAll([q], z3.Implies(m.dom[q], m.val[kk] <= m.val[q]), patterns=[m.dom[q]]))
        return VInt(m.val[kk])
    if name == "min" and len(args) == 1 and isinstance(args[0], VMap) and "key" in kwargs:
        m = args[0]
        ex.lib_used.add("min(dict, key=dict.get): SOME key of minimal value (CPython: the first one in insertion order)")
        kk = z3.Int(fresh_name("argmin"))
        q = z3.Int(fresh_name("mk"))
        # (the size term is kept consistent with the key set by every dictionary update: T-card)
        ex.oblige(st, f"L{line}.min_of_nonempty_dict", m.card > 0)
        st.pc.append(m.dom[kk])
        st.pc.append(z3.ForAll([q], z3.Implies(m.dom[q], m.val[kk] <= m.val[q]), patterns=[m.dom[q]]))
        return VStr(kk)
    if name in ("upd", "rem", "allkeys"):
        if name == "upd":
            m, k, v = args[0], args[1].t, as_int(args[2])
            return VMap(z3.Store(m.dom, k, z3.BoolVal(True)), z3.Store(m.val, k, v),
                        z3.If(m.dom[k], m.card, m.card + 1))
        if name == "rem":
            m, k = args[0], args[1].t
            return VMap(z3.Store(m.dom, k, z3.BoolVal(False)), m.val, z3.If(m.dom[k], m.card - 1, m.card))
        o = VOpaque("allkeys")
        return o
    if name in ("min", "max"):
        if len(args) == 1 and isinstance(args[0], VSeq):
            return seq_min(ex, st, args[0], line, name)
        if len(args) == 2 and not kwargs:
            if any(isinstance(a, VReal) for a in args):
                x, y = as_real(args[0]), as_real(args[1])
                return VReal(z3.If((x <= y) if name == "min" else (x >= y), x, y))
            x, y = as_int(args[0]), as_int(args[1])
            return VInt(z3.If((x <= y) if name == "min" else (x >= y), x, y))
        raise Unsupported(f"{name} call shape")
    if name == "reversed":
        v = _seq_of(ex, st, args[0])
        j = z3.Int("rv%j")
        return VSeq([z3.Lambda([j], a[v.ln - 1 - j]) for a in v.comps], v.ln, v.et, v.kind)
    if name == "sum":
        return seq_sum(ex, st, _seq_of(ex, st, args[0]))
    if name == "sorted":
        return sorted_model(ex, st, _seq_of(ex, st, args[0]), line)
    if name == "int":
        v = args[0]
        if isinstance(v, VOpt):
            ex.oblige(st, f"L{line}.int_arg_not_none", z3.Not(v.isnone))
            v = v.val
        if isinstance(v, (VInt, VBool)):
            return VInt(as_int(v))
        if isinstance(v, VReal):
            ex.lib_used.add("int(float): truncation toward zero of the real value")
            t = v.t
            return VInt(z3.If(t >= 0, z3.ToInt(t), -z3.ToInt(-t)))
        raise Unsupported(f"int({v})")
    if name == "float":
        v = args[0]
        return VReal(as_real(v))
    if name == "bool":
        return VBool(ex.truth(st, args[0]))
    if name == "str":
        v = args[0]
        if isinstance(v, VSeq) and v.kind == "hex":
            return v
        if isinstance(v, (VInt, VBool)):
            ex.lib_used.add("str(int): injective uninterpreted function")
            return VStr(str_of_int(as_int(v)))
        if isinstance(v, VStr):
            return v
        return VStr(z3.Int(fresh_name("str")))
    if name == "format" and len(args) == 2 and isinstance(args[0], (VInt, VBool)) and isinstance(args[1], VStr) \
            and args[1].lit is not None:
        from .values import str_code
        ex.lib_used.add("f-string of one int: injective uninterpreted function of (format, value)")
        return VStr(fmt_int(z3.IntVal(str_code(args[1].lit)), as_int(args[0])))
    if name == "abs":
        x = as_int(args[0])
        return VInt(z3.If(x >= 0, x, -x))
    if name == "round":
        ex.lib_used.add("round(float): a function of the real value with |round(x)-x| <= 1/2")
        x = as_real(args[0])
        r = r_round(x)
        st.pc.append(z3.And(z3.ToReal(r) - x <= z3.RealVal("1/2"), x - z3.ToReal(r) <= z3.RealVal("1/2")))
        return VInt(r)
    if name == "ceil_":
        return math_model(ex, st, "ceil", args, line)
    if name in ("undone_table", "undone_hand"):
        from . import tables
        t, hand, swaps, n = args[0], as_int(args[1]), args[2], as_int(args[3])
        if isinstance(swaps, VSeq) and len(swaps.comps) != 2 and z3.is_int_value(z3.simplify(swaps.ln)) \
                and z3.simplify(swaps.ln).as_long() == 0:
            return VInt(hand) if name == "undone_hand" else t        # nothing recorded yet
        if not (isinstance(swaps, VSeq) and len(swaps.comps) == 2):
            raise Unsupported("undone_*: the swap list must be a list of (bucket, slot) pairs")
        ex.lib_used.add("undo theory for the cuckoo eviction chain: undone_table/undone_hand defined by unfolding one "
                        "swap-back per step; only the first n recorded swaps matter (trusted axiom, true by induction)")
        if name == "undone_hand":
            return VInt(tables.UH(t.comps[0], hand, swaps.comps[0], swaps.comps[1], n))
        return VSeq([tables.UC(t.comps[0], hand, swaps.comps[0], swaps.comps[1], n), t.comps[1]], t.ln, t.et, t.kind)
    if name == "same":
        a, b = args
        if isinstance(a, VSeq) and isinstance(b, VSeq) and len(a.comps) == len(b.comps):
            # identical as values of the model: same length and the same cell arrays (no quantifier needed)
            return VBool(z3.And(a.ln == b.ln, *[x == y for x, y in zip(a.comps, b.comps)]))
        return VBool(ex.equal(st, a, b))
    if name == "nodup":
        from . import tables
        t = args[0]
        fv = z3.Int("nd%f")
        return VBool(z3.ForAll([fv], tables.tcount(t.comps[0], t.comps[1], as_int(args[1]), fv) <= 1,
                               patterns=[tables.tcount(t.comps[0], t.comps[1], as_int(args[1]), fv)]))
    if name == "smul":
        ex.lib_used.add("smul(q, w) = q*w by repeated addition (unfolding, monotone, non-negative: checked against q*w by "
                        "CPython on every run)")
        q_, w_ = as_int(args[0]), as_int(args[1])
        if z3.is_int_value(z3.simplify(q_)) and z3.simplify(q_).as_long() <= 0:
            return VInt(z3.IntVal(0))
        if not ex.binder_marks:
            # one unfolding step down and one up for this ground application
            st.pc.append(z3.Implies(q_ >= 1, TH.smul(q_, w_) == TH.smul(q_ - 1, w_) + w_))
            st.pc.append(z3.Implies(q_ >= 0, TH.smul(q_ + 1, w_) == TH.smul(q_, w_) + w_))
        return VInt(TH.smul(q_, w_))
    if name in ("tcount", "tsize", "lcount"):
        from . import tables
        ex.lib_used.add("T-occ2 / T-rangesum counting functions (see pyvc/tables.py)")
        if name == "tcount":
            t = args[0]
            return VInt(tables.tcount(t.comps[0], t.comps[1], as_int(args[1]), as_int(args[2])))
        if name == "tsize":
            t = args[0]
            return VInt(tables.tsize(t.comps[1], as_int(args[1])))
        lst = named_array(ex, st, args[0])
        return VInt(tables.lcnt(lst.comps[0], as_int(args[1]), as_int(args[2]), as_int(args[3])))
    if name in ("le_bytes", "be_bytes"):
        from . import streams
        w = as_int(args[2])
        if not z3.is_int_value(w):
            raise Unsupported("le_bytes with a symbolic width")
        f = streams.le_uint if name == "le_bytes" else streams.be_uint
        return VInt(f(args[0].comps[0], as_int(args[1]), w.as_long()))
    if name in ("f32", "ln", "exp_", "log2_", "pow_"):
        # specification builtins over reals (native definitions in contracts/spec.py)
        ex.lib_used.add("float32 narrowing f32 and log/exp/pow: uninterpreted real functions "
                        "(machine arithmetic treated as mathematical)")
        if name == "f32":
            return VReal(f32(as_real(args[0])))
        if name == "ln":
            return VReal(r_log(as_real(args[0])))
        if name == "exp_":
            return VReal(r_exp(as_real(args[0])))
        if name == "log2_":
            return VReal(r_log2(as_real(args[0])))
        return VReal(r_pow(as_real(args[0]), as_real(args[1])))
    if name == "bytes" and args and isinstance(args[0], (VRef, VStruct)):
        return ex.call_method(st, args[0], "__bytes__", [], {})
    if name in ("bytes", "bytearray") and args and isinstance(args[0], VSeq) and args[0].kind in ("array:I", "array:i"):
        from . import streams
        return streams.tobytes(ex, st, args[0])
    if name in ("Path", "pathlib.Path", "str") and args and isinstance(args[0], VStr):
        return args[0]
    if name == "open" and len(args) >= 2 and isinstance(args[1], VStr) and args[1].lit == "r+b" and isinstance(args[0], VStr):
        from . import streams
        ex.lib_used.add("open(path, 'r+b') kept in a field: the buffered file object of the on-disk filter")
        return streams.open_rw(ex, st, args[0])
    if name in ("copyfile", "shutil.copyfile"):
        from . import streams
        src, dst = args[0], args[1]
        owner = st.env.get("self")
        if not (isinstance(src, VStr) and isinstance(dst, VStr) and isinstance(owner, VRef)):
            raise Unsupported("copyfile shape")
        obj = ex.deref(st, owner)
        if "_filepath" not in obj.fields or "_bloom" not in obj.fields:
            raise Unsupported("copyfile outside the on-disk filter")
        ex.lib_used.add("shutil.copyfile(src, dst) with src the mapped file of the filter: dst receives the mapped bytes "
                        "(MAP_SHARED: the mapping is the file's content)")
        ex.oblige(st, f"L{line}.copy_source_is_the_filters_file", src.t == obj.fields["_filepath"].t)
        streams.fs_store(ex, st, dst, obj.fields["_bloom"])
        return VNone()
    if name in ("mmap", "mmap.mmap") and args and isinstance(args[0], VOpaque) and args[0].desc == "fileno":
        from . import streams
        path = getattr(args[0], "path", None)
        if path is None:
            raise Unsupported("mmap of an unknown file")
        ex.lib_used.add("mmap.mmap(fileno, 0): MAP_SHARED mapping of the whole file - element reads/writes are reads/writes "
                        "of the file's bytes")
        c = streams.fs_load(ex, st, path)
        return VSeq(c.comps, c.ln, c.et, "mmap")
    if name == "resolve":
        from . import streams
        return VStr(streams.rpath(args[0].t))
    if name in ("file_bytes", "file_exists"):
        from . import streams
        d, l, e = streams.fs_state(st)
        pth = args[0].t
        if name == "file_exists":
            return VBool(e[pth])
        return VSeq([d[pth]], l[pth], TInt(0, 255), "bytes")
    if name in ("i32_at", "i64_at"):
        from . import streams
        w = 4 if name == "i32_at" else 8
        raw = streams.le_uint(args[0].comps[0], as_int(args[1]), w)
        return VInt(z3.If(raw >= 2 ** (8 * w - 1), raw - 2 ** (8 * w), raw))
    if name == "mode_of":
        return ex.getattr(st, args[0], "_CountMinSketch__query_method")
    if name == "default_mode":
        c = args[0]
        cname = c.name if isinstance(c, VClass) else (c.cls if isinstance(c, (VRef, VStruct)) else None)
        mode = {"CountMeanSketch": "mean_query", "CountMeanMinSketch": "mean_min_query"}.get(cname, "min_query")
        return VStr.const("method:" + mode)
    if name in ("byte_of", "f32_byte"):
        from . import streams
        k = as_int(args[1])
        if name == "byte_of":
            return VInt(streams.digit(as_int(args[0]), k))
        return VInt(streams.digit(streams.f32bits(as_real(args[0])), k))
    if name == "cells32":
        # the little-endian uint32 cells of a bytes value, as a sequence
        a = args[0].comps[0]
        c = z3.Int("fb%c")             # (the very term array('I', bytes) builds: equal arrays are equal terms)
        cells = VSeq([z3.Lambda([c], streams_le_uint(a, 4 * c, 4))], args[0].ln / 4, TInt(0, 2 ** 32 - 1), "list")
        return named_array(ex, st, cells, in_binders=True)
    if name == "nzlead":
        from . import tables
        return VInt(tables.nzlead(args[0].comps[0], as_int(args[1])))
    if name == "f32_at_be":
        from . import streams
        return VReal(streams.f32val(streams.be_uint(args[0].comps[0], as_int(args[1]), 4)))
    if name == "unhex":
        a = args[0].comps[0]
        j = z3.Int("hx%j")
        return VSeq([z3.Lambda([j], 16 * a[2 * j] + a[2 * j + 1])], args[0].ln / 2, TInt(0, 255), "bytes")
    if name in ("written", "f32_at"):
        from . import streams
        if name == "written":
            return streams.stream_content(st, args[0])
        return VReal(streams.f32val(streams.le_uint(args[0].comps[0], as_int(args[1]), 4)))
    if name in ("list", "bytes", "bytearray", "tuple"):
        if not args:
            return VSeq([z3.K(I, z3.IntVal(0))], z3.IntVal(0), TInt(), "list" if name == "list" else "bytes")
        v = args[0]
        if name in ("bytes", "bytearray") and isinstance(v, (VInt, VBool)) and len(args) == 1:
            # bytes(n): n zero bytes (ValueError for a negative n)
            ex.oblige(st, f"L{line}.bytes_count_not_negative", as_int(v) >= 0, "safety")
            return VSeq([z3.K(I, z3.IntVal(0))], as_int(v), TInt(0, 255), "bytes")
        if isinstance(v, VSeq):
            kind = "list" if name == "list" else ("bytes" if name != "tuple" else v.kind)
            if name in ("bytes", "bytearray") and v.kind in ("array:I", "array:i"):
                return streams.tobytes(ex, st, v)          # buffer protocol: the raw bytes of the cells
            if name in ("bytes", "bytearray") and isinstance(v.et, TInt) and not (v.et.lo == 0 and v.et.hi == 255):
                k = z3.Int(fresh_name("b"))
                ex.oblige(st, f"L{line}.bytes_in_range",
                          z3.ForAll([k], z3.Implies(z3.And(0 <= k, k < v.ln),
                                                    z3.And(v.comps[0][k] >= 0, v.comps[0][k] <= 255))))
                return VSeq(v.comps, v.ln, TInt(0, 255), kind)
            return VSeq(v.comps, v.ln, v.et, kind)
        if isinstance(v, VStr) and name == "list":
            # list(key) for a bytes key: its bytes
            return key_bytes(ex, st, v, "utf8")
        if isinstance(v, VOpaque) and v.desc == "map_ord":
            return v.payload
        raise Unsupported(f"{name}({v})")
    if name == "map":
        if isinstance(args[0], VBuiltin) and args[0].name == "ord" and isinstance(args[1], VStr):
            o = VOpaque("map_ord")
            o.payload = key_bytes(ex, st, args[1], "ords")
            return o
        raise Unsupported("map()")
    if name == "isinstance":
        return isinstance_model(ex, st, args[0], node.args[1])
    if name == "array" or name == "array.array":
        tc = args[0]
        if isinstance(tc, VStr) and tc.lit is None:
            tc = literal_of(ex, st, tc, ("B", "I", "i", "L"))
        if not (isinstance(tc, VStr) and tc.lit is not None):
            raise Unsupported("array() with a symbolic type code")
        t = parse_type("array:" + tc.lit)
        if len(args) == 1:
            return VSeq([z3.K(I, z3.IntVal(0))], z3.IntVal(0), t.elem, t.kind)
        init = args[1]
        if isinstance(init, VSeq):
            if init.kind in ("bytes", "mmap"):
                return array_from_bytes(ex, st, tc.lit, init, line)
            if isinstance(init.et, TInt) and not ex.spec and tc.lit != "B" or (tc.lit == "B" and init.kind != "bytes"):
                k = z3.Int(fresh_name("x"))
                cs = [init.comps[0][k] >= t.elem.lo, init.comps[0][k] <= t.elem.hi]
                ex.oblige(st, f"L{line}.array_init_in_range",
                          z3.ForAll([k], z3.Implies(z3.And(0 <= k, k < init.ln), z3.And(*cs))))
            return VSeq(init.comps, init.ln, t.elem, t.kind)
        raise Unsupported("array() initializer")
    if name in ("struct.unpack", "unpack"):
        from . import streams
        return streams.unpack_bytes(ex, st, args[0], args[1], line)
    if name in ("md5", "sha256"):
        name = "hashlib." + name
    if name in ("hashlib.md5", "hashlib.sha256"):
        k = args[0]
        if not isinstance(k, VStr):
            raise Unsupported("digest of a non-key value")
        ex.lib_used.add("hashlib.md5/sha256(key).digest(): uninterpreted pure function of the key's bytes, "
                        "16 / 32 bytes long; a str argument raises TypeError in CPython (obligation: bytes)")
        ex.oblige(st, f"L{line}.digest_arg_is_bytes", z3.Not(is_str(k.t)))
        which = 16 if name.endswith("md5") else 32
        blob = DIG(z3.IntVal(which), k.t)
        st.pc += key_facts(blob) + [z3.Not(is_str(blob)), utf8_len(blob) == which]
        o = VOpaque("digest:" + name)
        o.payload = VStr(blob)
        return o
    if name.startswith("math."):
        return math_model(ex, st, short, args, line)
    if name.startswith("random."):
        return random_model(ex, st, short, args, line)
    if name in ("probables.utilities.is_valid_file", "probables.utilities.is_hex_string",
                "probables.utilities.resolve_path"):
        raise Unsupported(f"{name} outside the loader model")
    if name in ("print",):
        return VNone()
    if name == "type":
        return VOpaque("type")
    raise Unsupported(f"call to {name}")


def literal_of(ex, st, v, candidates):
    """a symbolic string that the path condition pins to one of the candidate literals"""
    from .values import str_code
    for cand in candidates:
        s = z3.Solver()
        s.set("timeout", 2000)
        for p in st.pc:
            s.add(p)
        s.add(v.t != str_code(cand))
        from .verify import guarded_check
        if guarded_check(s, 2000) == z3.unsat:
            return VStr.const(cand)
    return v


_CK = None


def _contract_keys():
    from .api import CONTRACTS
    return CONTRACTS


def sorted_model(ex, st, seq: VSeq, line):
    ex.lib_used.add("sorted(list): same length, ascending, first = min, last = max, every element drawn from the "
                    "input, same sum")
    seq = named_array(ex, st, seq)
    a = seq.comps[0]
    s = z3.Const(fresh_name("sorted"), A)
    i, j = z3.Int(fresh_name("i")), z3.Int(fresh_name("j"))
    wit = z3.Function(fresh_name("perm"), I, I)
    n = seq.ln
    st.pc.append(z3.ForAll([i], z3.Implies(z3.And(0 <= i, i < n),
                                           z3.And(0 <= wit(i), wit(i) < n, s[i] == a[wit(i)])), patterns=[s[i]]))
    st.pc.append(z3.ForAll([i], z3.Implies(z3.And(0 <= i, i < n), s[0] <= a[i]), patterns=[a[i]]))
    st.pc.append(z3.ForAll([i], z3.Implies(z3.And(0 <= i, i < n), s[n - 1] >= a[i]), patterns=[a[i]]))
    st.pc.append(z3.ForAll([i, j], z3.Implies(z3.And(0 <= i, i <= j, j < n), s[i] <= s[j]),
                           patterns=[z3.MultiPattern(s[i], s[j])]))
    st.pc.append(rsum(s, z3.IntVal(0), n) == rsum(a, z3.IntVal(0), n))
    return VSeq([s], n, seq.et, "list")


def isinstance_model(ex, st, v, tnode):
    names = []
    if isinstance(tnode, ast.Tuple):
        for e in tnode.elts:
            names.append(e.id if isinstance(e, ast.Name) else getattr(e, "attr", "?"))
    elif isinstance(tnode, ast.Name):
        names.append(tnode.id)
    else:
        raise Unsupported("isinstance type expression")
    if isinstance(v, VOpt):
        inner = isinstance_model(ex, st, v.val, tnode)
        return VBool(z3.And(z3.Not(v.isnone), inner.t))
    if isinstance(v, VNone):
        return VBool(False)
    if isinstance(v, (VInt,)):
        return VBool(any(n in ("int", "Number") for n in names))
    if isinstance(v, VBool):
        return VBool(any(n in ("int", "bool", "Number") for n in names))
    if isinstance(v, VReal):
        return VBool(any(n in ("float", "Number") for n in names))
    if isinstance(v, VStr):
        if "str" in names:
            return VBool(is_str(v.t))
        if "bytes" in names:
            return VBool(z3.Not(is_str(v.t)))
        return VBool(False)
    if isinstance(v, (VRef, VStruct)):
        res = any(n in ex.repo.classes and ex.repo.is_subclass(v.cls, n) for n in names)
        return VBool(res)
    if isinstance(v, VStream):
        return VBool(any(n in ("IOBase", "mmap") for n in names))
    if isinstance(v, VStr) and any(n in ("IOBase", "mmap", "bytes", "bytearray", "memoryview") for n in names) \
            and not any(n in ("str",) for n in names):
        return VBool(False)          # a path (text) is none of the byte-carrying types
    if isinstance(v, VSeq):
        if v.kind == "hex":
            return VBool("str" in names)
        if v.kind == "bytes":
            return VBool(any(n in ("bytes", "bytearray", "memoryview", "ByteString") for n in names))
        if v.kind == "mmap":
            return VBool("mmap" in names)
        return VBool(any(n in ("list",) for n in names))
    if isinstance(v, VOpaque) and v.desc.startswith("foreign"):
        return VBool(False)
    raise Unsupported(f"isinstance of {v}")


def math_model(ex, st, fn, args, line):
    if fn == "ceil":
        x = as_real(args[0])
        ex.lib_used.add("math.ceil(float): ceiling of the exact real value")
        return VInt(-z3.ToInt(-x))
    if fn == "floor":
        return VInt(z3.ToInt(as_real(args[0])))
    ex.lib_used.add(f"math.{fn}: uninterpreted real function (float rounding not modelled)")
    if fn == "log":
        x = as_real(args[0])
        ex.oblige(st, f"L{line}.log_arg_positive", x > 0)
        return VReal(r_log(x))
    if fn == "log2":
        x = as_real(args[0])
        ex.oblige(st, f"L{line}.log_arg_positive", x > 0)
        return VReal(r_log2(x))
    if fn == "exp":
        return VReal(r_exp(as_real(args[0])))
    if fn == "pow":
        return VReal(r_pow(as_real(args[0]), as_real(args[1])))
    raise Unsupported(f"math.{fn}")


def random_model(ex, st, fn, args, line):
    ex.lib_used.add("random.choice / random.randint: havoc within the documented range (every resolution of "
                    "randomness is covered)")
    if fn == "randint":
        lo, hi = as_int(args[0]), as_int(args[1])
        ex.oblige(st, f"L{line}.randint_range_nonempty", lo <= hi)
        r = z3.Int(fresh_name("rand"))
        st.pc.append(z3.And(lo <= r, r <= hi))
        return VInt(r)
    if fn == "choice":
        seq = args[0]
        if isinstance(seq, VSeq) and isinstance(seq.et, TInt):
            ex.oblige(st, f"L{line}.choice_nonempty", seq.ln > 0)
            w = z3.Int(fresh_name("choice"))
            st.pc.append(z3.And(0 <= w, w < seq.ln))
            return VInt(seq.comps[0][w])
        raise Unsupported("random.choice shape")
    raise Unsupported(f"random.{fn}")


def array_from_bytes(ex, st, tc, b: VSeq, line):
    from . import streams
    return streams.frombytes(ex, st, tc, b, line)


def value_method(ex, st, recv, name, args, kwargs, node):
    if isinstance(recv, VStructFmt):
        from . import streams
        return streams.struct_method(ex, st, recv, name, args, node)
    if isinstance(recv, VStream):
        from . import streams
        return streams.stream_method(ex, st, recv, name, args, node)
    if isinstance(recv, VSeq):
        from . import streams
        return streams.seq_io_method(ex, st, recv, name, args, node)
    if isinstance(recv, VBuiltin) and recv.name == "int" and name == "from_bytes" and args and isinstance(args[0], VSeq):
        # int.from_bytes(b, "little" | "big" | sys.byteorder [, signed=...]) for a byte string of a LITERAL length
        from . import streams
        order = args[1] if len(args) > 1 else kwargs.get("byteorder")
        signed = kwargs.get("signed")
        ln = z3.simplify(args[0].ln)
        if not (isinstance(order, VStr) and order.lit in ("little", "big")) or not z3.is_int_value(ln) \
                or not (signed is None or (isinstance(signed, VBool) and z3.is_true(z3.simplify(signed.t)) or z3.is_false(z3.simplify(signed.t)))):
            raise Unsupported("int.from_bytes with a non-literal length, byte order or signedness")
        w = ln.as_long()
        a = args[0].comps[0]
        raw = streams.le_uint(a, 0, w) if order.lit == "little" else streams.be_uint(a, 0, w)
        ex.lib_used.add("int.from_bytes(b, order, signed): the little/big-endian integer of the bytes (two's complement if signed)")
        if signed is not None and z3.is_true(z3.simplify(signed.t)):
            return VInt(z3.If(raw >= 2 ** (8 * w - 1), raw - 2 ** (8 * w), raw))
        return VInt(raw)
    if isinstance(recv, VBuiltin) and recv.name in ("md5", "sha256", "hashlib.md5", "hashlib.sha256"):
        pass
    if isinstance(recv, VOpaque) and recv.desc.startswith("digest:"):
        if name == "digest":
            return recv.payload
    raise Unsupported(f"method {name} on {recv}")


def exec_with(ex, s, st):
    from . import streams
    return streams.exec_with(ex, s, st)


# ---------------------------------------------------------------------------------------------
# spec functions: inlined symbolic evaluation of contracts/spec.py definitions
# ---------------------------------------------------------------------------------------------


REAL_BUILTINS = {"cells32", "nzlead", "hex_byte", "unhex", "f32_at_be", "smul", "f32", "ln", "exp_", "log2_", "pow_", "ceil_", "le_bytes", "be_bytes", "upd", "rem", "allkeys",
                 "tcount", "tsize", "lcount", "nodup", "same", "undone_table", "undone_hand", "written", "f32_at", "byte_of", "f32_byte", "i32_at", "i64_at", "default_mode", "mode_of", "file_bytes", "file_exists", "resolve"}


def call_spec(ex, st, name, args, kwargs):
    if name in REAL_BUILTINS:
        return call_builtin(ex, st, name, args, kwargs, None)
    node = ex.eng.spec_funcs[name]
    rec = any(isinstance(d, ast.Name) and d.id == "recursive" for d in node.decorator_list)
    unint = any(isinstance(d, ast.Name) and d.id == "uninterpreted" for d in node.decorator_list)
    opaque = any(isinstance(d, ast.Name) and d.id == "opaque" for d in node.decorator_list)
    if opaque and not (ex.contract is not None and name in ex.contract.reveal):
        # hidden definition: an uninterpreted symbol (keeps queries small; `reveal` in a contract unfolds it)
        unint = True
    params = [a.arg for a in node.args.args]
    if len(args) + len(kwargs) != len(params):
        raise Unsupported(f"spec function {name}: wrong number of arguments")
    env = dict(zip(params, args))
    env.update(kwargs)
    if rec or unint:
        return call_spec_recursive(ex, st, name, node, params, env, interpreted=rec)
    from .sym import _as_expression
    body = [b for b in node.body if not (isinstance(b, ast.Expr) and isinstance(b.value, ast.Constant))]
    # leading `name = expr` statements are let-bindings
    lets = []
    while body and isinstance(body[0], ast.Assign) and len(body[0].targets) == 1 and isinstance(body[0].targets[0], ast.Name):
        lets.append(body.pop(0))
    expr = _as_expression(body)
    if expr is None:
        raise Unsupported(f"spec function {name} is not expression-like")
    saved = (st.env, ex.module, ex.defcls)
    st.env = env
    ex.module, ex.defcls = None, None
    ex.spec += 1
    try:
        for a in lets:
            st.env[a.targets[0].id] = ex.eval(a.value, st)
        return ex.eval(expr, st)
    finally:
        ex.spec -= 1
        st.env, ex.module, ex.defcls = saved


def call_spec_recursive(ex, st, name, node, params, env, interpreted):
    """@recursive spec function over ints / int-sequences: a z3 function symbol with a quantified
    unfolding axiom (trigger = the application itself).  Sequence arguments contribute their
    array only."""
    from .sym import _as_expression
    sig = []
    flat_args = []
    for p in params:
        v = env[p]
        if isinstance(v, VSeq):
            sig.append(("seq", v))
            flat_args.append(v.comps[0])
        elif isinstance(v, (VInt, VBool)):
            sig.append(("int", None))
            flat_args.append(as_int(v))
        elif isinstance(v, VStr):
            sig.append(("str", None))
            flat_args.append(v.t)
        elif isinstance(v, VFunc):
            sig.append(("func:" + v.kind, None))
            flat_args.append(v.t)
        elif isinstance(v, VReal):
            sig.append(("real", None))
            flat_args.append(v.t)
        elif isinstance(v, VOpt) and isinstance(v.val, (VInt, VReal)):
            sig.append(("real" if isinstance(v.val, VReal) else "int", None))
            flat_args.append(v.val.t)
        else:
            raise Unsupported(f"recursive spec function {name}: argument {p} = {v}")
    kinds = tuple(k for k, _ in sig)
    key = (name, kinds)
    if key not in ex.eng.recfuns:
        sorts = [A if k == "seq" else (z3.RealSort() if k == "real" else I) for k in kinds]
        ann = node.returns.id if isinstance(node.returns, ast.Name) else "int"
        rsort = z3.BoolSort() if ann == "bool" else (z3.RealSort() if ann == "float" else I)
        rkind = ann
        f = z3.Function("spec_" + name, *sorts, rsort)
        ex.eng.recfuns[key] = (f, rsort)
        if interpreted:
            # unfolding axiom
            bvars = []
            benv = {}
            for p, k in zip(params, kinds):
                if k == "seq":
                    a = z3.Const(f"{name}!{p}", A)
                    bvars.append(a)
                    benv[p] = VSeq([a], z3.Int(f"{name}!{p}!len"), TInt(), "list")
                elif k == "str":
                    x = z3.Int(f"{name}!{p}")
                    bvars.append(x)
                    benv[p] = VStr(x)
                elif k.startswith("func:"):
                    x = z3.Int(f"{name}!{p}")
                    bvars.append(x)
                    benv[p] = VFunc(x, k[5:])
                else:
                    x = z3.Int(f"{name}!{p}")
                    bvars.append(x)
                    benv[p] = VInt(x)
            body = [b for b in node.body if not (isinstance(b, ast.Expr) and isinstance(b.value, ast.Constant))]
            expr = _as_expression(body)
            if expr is None:
                raise Unsupported(f"spec function {name} is not expression-like")
            tmp = st.fork()
            tmp.env = benv
            tmp.pc = []
            saved = (ex.module, ex.defcls)
            ex.module, ex.defcls = None, None
            ex.spec += 1
            try:
                val = ex.eval(expr, tmp)
            finally:
                ex.spec -= 1
                ex.module, ex.defcls = saved
            rhs = val.t if (rsort == z3.BoolSort() or isinstance(val, VStr)) else as_int(val)
            app = f(*bvars)
            ex.eng.axioms_extra.append(z3.ForAll(bvars, app == rhs, patterns=[app]))
    f, rsort = ex.eng.recfuns[key]
    app = f(*flat_args)
    ann = node.returns.id if isinstance(node.returns, ast.Name) else "int"
    if ann == "bytes":
        st.pc += key_facts(app) + [z3.Not(is_str(app)), utf8_len(app) >= 8]
        return VStr(app)
    if ann == "float":
        return VReal(app)
    return VBool(app) if rsort == z3.BoolSort() else VInt(app)
