"""Byte-stream / struct / file model (segment-wise).  Filled in for C05/C06/C11."""
from __future__ import annotations

from .sym import Unsupported


import struct as _struct

import z3

from .sym import as_int
from .values import TInt, VInt, VReal, VSeq, VStr, VTuple

STRUCT_CODES = {"B": (1, False), "I": (4, False), "i": (4, True), "Q": (8, False), "q": (8, True), "L": (8, False)}


def le_uint(arr, off, width):
    """little-endian unsigned integer of `width` bytes at offset off: a linear term over the cells"""
    return z3.Sum([arr[off + i] * (256 ** i) for i in range(width)])


def be_uint(arr, off, width):
    return z3.Sum([arr[off + i] * (256 ** (width - 1 - i)) for i in range(width)])


def unpack_bytes(ex, st, fmt, data, line):
    """struct.unpack(fmt, data) for single-integer formats (used by the hash decorators)"""
    if not (isinstance(fmt, VStr) and fmt.lit in STRUCT_CODES):
        raise Unsupported("unpack format")
    width, signed = STRUCT_CODES[fmt.lit]
    if not isinstance(data, VSeq):
        raise Unsupported("unpack of non-bytes")
    ex.lib_used.add("struct.unpack of one native little-endian integer (x86-64)")
    ex.oblige(st, f"L{line}.unpack_exact_size", data.ln == width)
    v = le_uint(data.comps[0], 0, width)
    if signed:
        v = z3.If(v >= 2 ** (8 * width - 1), v - 2 ** (8 * width), v)
    return VTuple([VInt(v)])


def struct_method(ex, st, recv, name, args, node):
    raise Unsupported(f"Struct.{name} (stream model)")


def stream_method(ex, st, recv, name, args, node):
    raise Unsupported(f"stream.{name} (stream model)")


def seq_io_method(ex, st, recv, name, args, node):
    raise Unsupported(f"sequence method {name}")


def exec_with(ex, s, st):
    raise Unsupported("with-statement (stream model)")
