"""Byte-stream / struct / file model (segment-wise).  Filled in for C05/C06/C11."""
from __future__ import annotations

from .sym import Unsupported


import struct as _struct

import z3

from .sym import as_int
from .values import TInt, VInt, VOpaque, VReal, VSeq, VStr, VTuple, fresh_name

STRUCT_CODES = {"B": (1, False), "I": (4, False), "i": (4, True), "Q": (8, False), "q": (8, True), "L": (8, False)}


def le_uint(arr, off, width):
    """little-endian unsigned integer of `width` bytes at offset off: a linear term over the cells"""
    return z3.Sum([arr[off + i] * (256 ** i) for i in range(width)])


def be_uint(arr, off, width):
    return z3.Sum([arr[off + i] * (256 ** (width - 1 - i)) for i in range(width)])


def unpack_bytes(ex, st, fmt, data, line):
    """struct.unpack(fmt, data) for single-integer formats (used by the hash decorators)"""
    if not (isinstance(fmt, VStr) and fmt.lit in STRUCT_CODES):
        raise Unsupported("unpack format")
    width, signed = STRUCT_CODES[fmt.lit]
    if not isinstance(data, VSeq):
        raise Unsupported("unpack of non-bytes")
    ex.lib_used.add("struct.unpack of one native little-endian integer (x86-64)")
    ex.oblige(st, f"L{line}.unpack_exact_size", data.ln == width)
    v = le_uint(data.comps[0], 0, width)
    if signed:
        v = z3.If(v >= 2 ** (8 * width - 1), v - 2 ** (8 * width), v)
    return VTuple([VInt(v)])


f32bits = z3.Function("f32bits", z3.RealSort(), z3.IntSort())     # IEEE-754 binary32 bit pattern of f32(x)
f32val = z3.Function("f32val", z3.IntSort(), z3.RealSort())       # value of a bit pattern


def fmt_layout(fmt):
    """[(code, offset, width)] and total size for a struct format, native alignment of this host
    (the host of the checks is the host of the library: x86-64 little endian)"""
    order = "<"
    body = fmt
    if fmt and fmt[0] in "<>=!@":
        order = fmt[0]
        body = fmt[1:]
    prefix = "" if order == "@" or fmt[0] not in "<>=!@" else order
    fields = []
    for i, code in enumerate(body):
        upto = _struct.calcsize(prefix + body[: i + 1])
        w = _struct.calcsize("=" + code)
        fields.append((code, upto - w, w))
    big = order in (">", "!")
    return fields, _struct.calcsize(fmt), big


digit = z3.Function("digit", z3.IntSort(), z3.IntSort(), z3.IntSort())   # digit(x, i) = (x div 256**i) mod 256


def digits(v, width, big):
    """base-256 digits of the non-negative integer term v (function `digit`, see digit_axioms)"""
    ds = [digit(v, z3.IntVal(i)) for i in range(width)]
    return list(reversed(ds)) if big else ds


def digit_axioms():
    """facts about base-256 digits.  The 8-digit sum identity is beyond z3's linear integer solver (60 s
    `unknown`), but immediate over bit-vectors; `prove_digit_lemmas` discharges each width there on every run."""
    x, i = z3.Int("x!dg"), z3.Int("i!dg")
    out = [z3.ForAll([x, i], z3.And(digit(x, i) >= 0, digit(x, i) <= 255), patterns=[digit(x, i)])]
    for w in (1, 2, 4, 8):
        body = z3.Implies(z3.And(x >= 0, x < 256 ** w),
                          z3.Sum([digit(x, z3.IntVal(k)) * 256 ** k for k in range(w)]) == x)
        pats = [digit(x, z3.IntVal(0))] if w == 1 else [z3.MultiPattern(digit(x, z3.IntVal(0)), digit(x, z3.IntVal(w - 1)))]
        out.append(z3.ForAll([x], body, patterns=pats))
    return out


def prove_digit_lemmas():
    """bit-vector proofs of the digit-sum identities (width 1,2,4,8): returns list of (width, result)"""
    res = []
    for w in (1, 2, 4, 8):
        xb = z3.BitVec("xb", 8 * w)
        ds = [z3.ZeroExt(8 * w - 8, z3.Extract(8 * k + 7, 8 * k, xb)) if w > 1 else xb for k in range(w)]
        tot = ds[0]
        for k in range(1, w):
            tot = tot + (ds[k] << (8 * k))
        s = z3.Solver()
        s.add(tot != xb)
        res.append((w, str(s.check())))
    return res


def struct_pack(ex, st, fmt, args, line):
    from .lib_models import f32
    fields, size, big = fmt_layout(fmt)
    if len(args) != len(fields):
        raise Unsupported("struct.pack: wrong number of values")
    ex.lib_used.add(f"struct.Struct({fmt!r}): field offsets/sizes taken from the running CPython "
                    f"(size {size}); integers as explicit base-256 digits, out-of-range values raise struct.error")
    arr = z3.K(z3.IntSort(), z3.IntVal(0))
    for (code, off, w), v in zip(fields, args):
        if code == "f":
            ex.lib_used.add("struct 'f' field: IEEE binary32 bit pattern f32bits(x) with f32val(f32bits(x)) == f32(x)")
            from .sym import as_real
            bits = f32bits(as_real(v))
            st.pc.append(z3.And(bits >= 0, bits < 2 ** 32))
            val = bits
        else:
            x = as_int(v)
            signed = code in "iqlh"
            lo, hi = (-(2 ** (8 * w - 1)), 2 ** (8 * w - 1) - 1) if signed else (0, 2 ** (8 * w) - 1)
            ex.oblige(st, f"L{line}.struct_pack_{code}_in_range", z3.And(x >= lo, x <= hi))
            val = z3.If(x < 0, x + 2 ** (8 * w), x) if signed else x
        for i, d in enumerate(digits(val, w, big)):
            arr = z3.Store(arr, off + i, d)
    return VSeq([arr], z3.IntVal(size), TInt(0, 255), "bytes")


def struct_unpack(ex, st, fmt, data, line, exact=True):
    fields, size, big = fmt_layout(fmt)
    if not isinstance(data, VSeq):
        raise Unsupported("struct.unpack of a non-bytes value")
    ex.lib_used.add(f"struct.Struct({fmt!r}).unpack: little/big-endian integer of the field bytes "
                    f"(size {size}, offsets from the running CPython)")
    if exact:
        ex.oblige(st, f"L{line}.struct_unpack_exact_size", data.ln == size)
    else:
        ex.oblige(st, f"L{line}.struct_unpack_enough_bytes", data.ln >= size)
    a = data.comps[0]
    out = []
    for code, off, w in fields:
        raw = be_uint(a, off, w) if big else le_uint(a, off, w)
        if code == "f":
            out.append(VReal(f32val(raw)))
        elif code in "iqlh":
            out.append(VInt(z3.If(raw >= 2 ** (8 * w - 1), raw - 2 ** (8 * w), raw)))
        else:
            out.append(VInt(raw))
    return VTuple(out)


def struct_method(ex, st, recv, name, args, node):
    line = ex.cur_line
    if name == "pack":
        return struct_pack(ex, st, recv.fmt, args, line)
    if name == "unpack":
        return struct_unpack(ex, st, recv.fmt, args[0], line, exact=True)
    if name == "unpack_from":
        return struct_unpack(ex, st, recv.fmt, args[0], line, exact=False)
    raise Unsupported(f"Struct.{name}")


def fileptr_apply_pending(ex, st, loc, fp):
    """move the buffered write (if any) into the mapped file"""
    from .values import VFilePtr
    owner = loc[1]
    target = ("vfield", owner, "_bloom")
    cur = ex.read(st, target)
    j = z3.Int(fresh_name("fw"))
    ex.oblige(st, f"L{ex.cur_line}.file_write_within_file",
              z3.Implies(fp.haspend, z3.And(fp.ppos >= 0, fp.ppos + fp.plen <= cur.ln)))
    newarr = z3.Lambda([j], z3.If(z3.And(fp.haspend, fp.ppos <= j, j < fp.ppos + fp.plen),
                                  fp.parr[j - fp.ppos], cur.comps[0][j]))
    ex.write(st, target, VSeq([newarr], cur.ln, cur.et, cur.kind), structural=False)
    return VFilePtr(fp.isnone, fp.pos, fp.closed, z3.BoolVal(False), fp.ppos, fp.plen, fp.parr)


def fileptr_method(ex, st, loc, fp, name, args):
    """buffered read/write file object on the file mapped by the owner's `_bloom` (BufferedRandom):
    write() goes to a user-space buffer, flush()/seek()/close() move it into the file"""
    from .values import VFilePtr, VNone
    ex.lib_used.add("file object (open(path, 'r+b')) on the mmapped file: write() is buffered in user space until "
                    "flush()/seek()/close(); a flushed write of <= 8 bytes becomes visible atomically; bytes in the "
                    "page cache survive a killed process (power loss / kernel crash out of scope)")
    ex.oblige(st, f"L{ex.cur_line}.file_pointer_open", z3.And(z3.Not(fp.isnone), z3.Not(fp.closed)))
    if loc[0] != "vfield":
        raise Unsupported("file object not held in an object field")
    if name == "seek":
        fp = fileptr_apply_pending(ex, st, loc, fp)
        off = as_int(args[0])
        target = ex.read(st, ("vfield", loc[1], "_bloom"))
        whence = args[1] if len(args) > 1 else None
        from .values import VBuiltin
        if isinstance(whence, VBuiltin) and whence.name.endswith("SEEK_END"):
            pos = target.ln + off
        elif whence is None:
            pos = off
        else:
            raise Unsupported("seek whence")
        ex.oblige(st, f"L{ex.cur_line}.seek_position_nonneg", pos >= 0)
        ex.write(st, loc, VFilePtr(fp.isnone, pos, fp.closed, fp.haspend, fp.ppos, fp.plen, fp.parr))
        return VNone()
    if name == "write":
        fp = fileptr_apply_pending(ex, st, loc, fp)
        data = args[0]
        if not isinstance(data, VSeq):
            raise Unsupported("file.write of a non-bytes value")
        ex.write(st, loc, VFilePtr(fp.isnone, fp.pos + data.ln, fp.closed, z3.BoolVal(True), fp.pos, data.ln,
                                   data.comps[0]))
        return VInt(data.ln)
    if name == "flush":
        ex.write(st, loc, fileptr_apply_pending(ex, st, loc, fp))
        return VNone()
    if name == "close":
        fp = fileptr_apply_pending(ex, st, loc, fp)
        ex.write(st, loc, VFilePtr(fp.isnone, fp.pos, z3.BoolVal(True), fp.haspend, fp.ppos, fp.plen, fp.parr))
        return VNone()
    raise Unsupported(f"file.{name}")


def real_axioms():
    from .lib_models import f32, r_log, r_pow, r_exp
    x = z3.Real("x!ra")
    y = z3.Real("y!ra")
    b = z3.Int("b!ra")
    return [
        (("f32",), z3.ForAll([x], f32(f32(x)) == f32(x), patterns=[f32(f32(x))])),
        (("f32val", "f32bits"), z3.ForAll([x], f32val(f32bits(x)) == f32(x), patterns=[f32bits(x)])),
        (("f32val",), z3.ForAll([b], f32(f32val(b)) == f32val(b), patterns=[f32val(b)])),
        (("f32val", "f32bits"), z3.ForAll([b], z3.Implies(z3.And(0 <= b, b < 2 ** 32), f32bits(f32val(b)) == b),
                                          patterns=[f32val(b)])),
        (("r_log",), z3.ForAll([x], z3.Implies(z3.And(x > 0, x < 1), r_log(x) < 0), patterns=[r_log(x)])),
        (("r_log",), r_log(z3.RealVal(1)) == 0),
        (("r_pow",), z3.ForAll([x, y], z3.Implies(x > 0, r_pow(x, y) > 0), patterns=[r_pow(x, y)])),
        (("r_exp",), z3.ForAll([x], r_exp(x) > 0, patterns=[r_exp(x)])),
        (("r_log",), z3.ForAll([x], z3.Implies(x > 1, r_log(x) > 0), patterns=[r_log(x)])),
        # float32 narrowing is monotone and fixes 0 and 1
        (("f32",), z3.ForAll([x], z3.And(z3.Implies(x <= 1, f32(x) <= 1), z3.Implies(x >= 1, f32(x) >= 1),
                                         z3.Implies(x >= 0, f32(x) >= 0), z3.Implies(x <= 0, f32(x) <= 0)),
                             patterns=[f32(x)])),
    ]


def tobytes(ex, st, arr: VSeq):
    """native byte image of an array (what tofile()/bytes() write): identity for byte arrays, 4 little-endian
    two's-complement bytes per cell for 'I'/'i' arrays"""
    if arr.kind in ("array:B", "bytes", "mmap"):
        return VSeq(arr.comps, arr.ln, TInt(0, 255), "bytes")
    if arr.kind in ("array:I", "array:i"):
        ex.lib_used.add("array('I'/'i').tofile / bytes(): 4 little-endian bytes per cell (two's complement for 'i'), "
                        "x86-64; array(tc, bytes) is the inverse")
        a = arr.comps[0]
        j = z3.Int("tb%j")
        cell = a[j / 4]
        enc = z3.If(cell < 0, cell + 2 ** 32, cell)
        k = j % 4
        byte = z3.If(k == 0, digit(enc, 0), z3.If(k == 1, digit(enc, 1), z3.If(k == 2, digit(enc, 2), digit(enc, 3))))
        return VSeq([z3.Lambda([j], byte)], arr.ln * 4, TInt(0, 255), "bytes")
    raise Unsupported(f"byte image of {arr.kind}")


def frombytes(ex, st, tc, b: VSeq, line):
    """array(tc, bytes)"""
    if tc == "B":
        return VSeq(b.comps, b.ln, TInt(0, 255), "array:B")
    if tc in ("I", "i"):
        ex.lib_used.add("array('I'/'i', bytes): cell c = little-endian integer of bytes 4c..4c+3")
        ex.oblige(st, f"L{line}.array_from_bytes_multiple_of_item_size", b.ln % 4 == 0)
        c = z3.Int("fb%c")
        raw = le_uint(b.comps[0], 4 * c, 4)
        val = z3.If(raw >= 2 ** 31, raw - 2 ** 32, raw) if tc == "i" else raw
        from .values import parse_type
        t = parse_type("array:" + tc)
        return VSeq([z3.Lambda([c], val)], b.ln / 4, t.elem, t.kind)
    raise Unsupported(f"array({tc!r}, bytes)")


def stream_content(st, s):
    if not hasattr(s, "sid"):
        raise Unsupported("written(x) of something that is not a stream in this context")
    if s.sid not in st.streams:
        raise Unsupported("unknown stream")
    return st.streams[s.sid]


def stream_append(ex, st, s, data: VSeq):
    cur = stream_content(st, s)
    st.streams[s.sid] = ex.seq_concat(st, cur, data)
    st.nwrites[0] += 1
    if st.writelog is not None:
        st.writelog.append((("stream", s.sid), ("stream", s.sid), True))


def stream_method(ex, st, recv, name, args, node):
    if name == "write":
        data = args[0]
        if not isinstance(data, VSeq):
            raise Unsupported("write of a non-bytes value")
        ex.lib_used.add("file.write(b) / array.tofile(f) on a stream opened for writing: appends the bytes")
        stream_append(ex, st, recv, tobytes(ex, st, data))
        return VInt(data.ln)
    if name == "getvalue":
        c = stream_content(st, recv)
        return VSeq(c.comps, c.ln, c.et, "bytes")
    if name in ("flush", "close"):
        from .values import VNone
        return VNone()
    raise Unsupported(f"stream.{name}")


def seq_io_method(ex, st, recv, name, args, node):
    from .values import VStream, VNone
    if name == "tofile" and len(args) == 1 and isinstance(args[0], VStream):
        ex.lib_used.add("file.write(b) / array.tofile(f) on a stream opened for writing: appends the bytes")
        stream_append(ex, st, args[0], tobytes(ex, st, recv))
        return VNone()
    if name == "tobytes":
        return tobytes(ex, st, recv)
    raise Unsupported(f"sequence method {name}")


def exec_with(ex, s, st):
    """with BytesIO() as f / with open(path, 'wb') as f / with MMap(path) as f"""
    import ast
    from .values import VStream, VBuiltin
    if len(s.items) != 1 or s.items[0].optional_vars is None or not isinstance(s.items[0].optional_vars, ast.Name):
        raise Unsupported("with-statement shape")
    ctx = s.items[0].context_expr
    var = s.items[0].optional_vars.id
    if not isinstance(ctx, ast.Call):
        raise Unsupported("with-statement context")
    fname = ctx.func.id if isinstance(ctx.func, ast.Name) else getattr(ctx.func, "attr", "")
    if fname == "BytesIO" and not ctx.args:
        sid = st.new_oid()
        st.streams[sid] = VSeq([z3.K(z3.IntSort(), z3.IntVal(0))], z3.IntVal(0), TInt(0, 255), "bytes")
        st.env[var] = VStream(sid)
        ex.lib_used.add("io.BytesIO(): an empty in-memory stream; getvalue() returns the bytes written")
        return ex.exec_block(s.body, st)
    if fname == "open" and len(ctx.args) >= 2:
        mode = ex.eval(ctx.args[1], st)
        path = ex.eval(ctx.args[0], st)
        if isinstance(mode, VStr) and mode.lit == "wb" and isinstance(path, VStr):
            ex.lib_used.add("open(path, 'wb'): a new empty file object; at the end of the with-block the bytes written "
                            "are the content of the file at that (resolved) path")
            sid = st.new_oid()
            st.streams[sid] = VSeq([z3.K(z3.IntSort(), z3.IntVal(0))], z3.IntVal(0), TInt(0, 255), "bytes")
            st.env[var] = VStream(sid)
            outs = ex.exec_block(s.body, st)
            res = []
            for cur, status in outs:
                fs_store(ex, cur, path, cur.streams[sid])
                res.append((cur, status))
            return res
        if isinstance(mode, VStr) and mode.lit == "r+b" and isinstance(path, VStr):
            ex.lib_used.add("open(path, 'r+b') in a with-block used for seek()/read(): a read cursor over the file's bytes")
            c = fs_load(ex, st, path)
            rf = VOpaque("readfile")
            rf.content, rf.pos = c, z3.IntVal(0)
            st.env[var] = rf
            return ex.exec_block(s.body, st)
        raise Unsupported("open() mode")
    if fname == "open" and len(ctx.args) >= 2:
        pass
    if fname == "MMap" and len(ctx.args) == 1:
        path = ex.eval(ctx.args[0], st)
        if not isinstance(path, VStr):
            raise Unsupported("MMap of a non-path")
        ex.lib_used.add("MMap(path): read-only view of the bytes of the file at that path")
        c = fs_load(ex, st, path)
        st.env[var] = VSeq(c.comps, c.ln, TInt(0, 255), "mmap")
        return ex.exec_block(s.body, st)
    raise Unsupported(f"with {fname}(...)")


FS_DATA = z3.Array("fs_data!0", z3.IntSort(), z3.ArraySort(z3.IntSort(), z3.IntSort()))
FS_LEN = z3.Array("fs_len!0", z3.IntSort(), z3.IntSort())
FS_EXISTS = z3.Array("fs_exists!0", z3.IntSort(), z3.BoolSort())
rpath = z3.Function("resolve_path", z3.IntSort(), z3.IntSort())
pname = z3.Function("path_name", z3.IntSort(), z3.IntSort())


def path_axioms():
    p = z3.Int("p!rp")
    from .lib_models import is_str
    return [z3.ForAll([p], rpath(rpath(p)) == rpath(p), patterns=[rpath(rpath(p))]),
            # a resolved path is a path object, never a bytes value (it takes the "path" branch of isinstance tests)
            z3.ForAll([p], is_str(rpath(p)), patterns=[rpath(p)])]


def readfile_method(ex, st, rf, name, args, var_node):
    """seek()/read() on the read cursor of `with open(path, 'r+b') as f`"""
    import ast
    from .values import VBuiltin, VNone
    if name == "seek":
        off = as_int(args[0])
        whence = args[1] if len(args) > 1 else None
        if isinstance(whence, VBuiltin) and whence.name.endswith("SEEK_END"):
            pos = rf.content.ln + off
        elif whence is None:
            pos = off
        else:
            raise Unsupported("seek whence")
        ex.oblige(st, f"L{ex.cur_line}.seek_position_nonneg", pos >= 0)
        nrf = VOpaque("readfile")
        nrf.content, nrf.pos = rf.content, pos
        if isinstance(var_node, ast.Name):
            st.env[var_node.id] = nrf
        return VNone()
    if name == "read":
        n = as_int(args[0])
        ex.oblige(st, f"L{ex.cur_line}.read_within_file", z3.And(n >= 0, rf.pos + n <= rf.content.ln))
        j = z3.Int(fresh_name("rd"))
        return VSeq([z3.Lambda([j], rf.content.comps[0][j + rf.pos])], n, TInt(0, 255), "bytes")
    raise Unsupported(f"file.{name} on a read cursor")


def open_rw(ex, st, path):
    """open(path, 'r+b') kept in an object field: buffered read/write file object on that file"""
    from .values import VFilePtr
    fp = VFilePtr(z3.BoolVal(False), z3.IntVal(0), z3.BoolVal(False), z3.BoolVal(False), z3.IntVal(0), z3.IntVal(0),
                  z3.K(z3.IntSort(), z3.IntVal(0)))
    fp._path = path
    d, l, e = fs_state(st)
    ex.oblige(st, f"L{ex.cur_line}.file_exists", e[path.t])
    return fp


def fs_state(st):
    if st.fs is None:
        st.fs = (FS_DATA, FS_LEN, FS_EXISTS)
    return st.fs


def fs_store(ex, st, path, content):
    d, l, e = fs_state(st)
    st.fs = (z3.Store(d, path.t, content.comps[0]), z3.Store(l, path.t, content.ln), z3.Store(e, path.t, z3.BoolVal(True)))
    st.nwrites[0] += 1


def fs_load(ex, st, path):
    d, l, e = fs_state(st)
    ex.oblige(st, f"L{ex.cur_line}.file_exists", e[path.t])
    v = VSeq([d[path.t]], l[path.t], TInt(0, 255), "bytes")
    i = z3.Int(fresh_name("fsb"))
    st.pc += [v.ln >= 0, z3.ForAll([i], z3.And(v.comps[0][i] >= 0, v.comps[0][i] <= 255), patterns=[v.comps[0][i]])]
    return v
