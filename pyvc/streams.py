"""Byte-stream / struct / file model (segment-wise).  Filled in for C05/C06/C11."""
from __future__ import annotations

from .sym import Unsupported


import struct as _struct

import z3

from .sym import as_int
from .values import TInt, VInt, VReal, VSeq, VStr, VTuple, fresh_name

STRUCT_CODES = {"B": (1, False), "I": (4, False), "i": (4, True), "Q": (8, False), "q": (8, True), "L": (8, False)}


def le_uint(arr, off, width):
    """little-endian unsigned integer of `width` bytes at offset off: a linear term over the cells"""
    return z3.Sum([arr[off + i] * (256 ** i) for i in range(width)])


def be_uint(arr, off, width):
    return z3.Sum([arr[off + i] * (256 ** (width - 1 - i)) for i in range(width)])


def unpack_bytes(ex, st, fmt, data, line):
    """struct.unpack(fmt, data) for single-integer formats (used by the hash decorators)"""
    if not (isinstance(fmt, VStr) and fmt.lit in STRUCT_CODES):
        raise Unsupported("unpack format")
    width, signed = STRUCT_CODES[fmt.lit]
    if not isinstance(data, VSeq):
        raise Unsupported("unpack of non-bytes")
    ex.lib_used.add("struct.unpack of one native little-endian integer (x86-64)")
    ex.oblige(st, f"L{line}.unpack_exact_size", data.ln == width)
    v = le_uint(data.comps[0], 0, width)
    if signed:
        v = z3.If(v >= 2 ** (8 * width - 1), v - 2 ** (8 * width), v)
    return VTuple([VInt(v)])


f32bits = z3.Function("f32bits", z3.RealSort(), z3.IntSort())     # IEEE-754 binary32 bit pattern of f32(x)
f32val = z3.Function("f32val", z3.IntSort(), z3.RealSort())       # value of a bit pattern


def fmt_layout(fmt):
    """[(code, offset, width)] and total size for a struct format, native alignment of this host
    (the host of the checks is the host of the library: x86-64 little endian)"""
    order = "<"
    body = fmt
    if fmt and fmt[0] in "<>=!@":
        order = fmt[0]
        body = fmt[1:]
    prefix = "" if order == "@" or fmt[0] not in "<>=!@" else order
    fields = []
    for i, code in enumerate(body):
        upto = _struct.calcsize(prefix + body[: i + 1])
        w = _struct.calcsize("=" + code)
        fields.append((code, upto - w, w))
    big = order in (">", "!")
    return fields, _struct.calcsize(fmt), big


digit = z3.Function("digit", z3.IntSort(), z3.IntSort(), z3.IntSort())   # digit(x, i) = (x div 256**i) mod 256


def digits(v, width, big):
    """base-256 digits of the non-negative integer term v (function `digit`, see digit_axioms)"""
    ds = [digit(v, z3.IntVal(i)) for i in range(width)]
    return list(reversed(ds)) if big else ds


def digit_axioms():
    """facts about base-256 digits.  The 8-digit sum identity is beyond z3's linear integer solver (60 s
    `unknown`), but immediate over bit-vectors; `prove_digit_lemmas` discharges each width there on every run."""
    x, i = z3.Int("x!dg"), z3.Int("i!dg")
    out = [z3.ForAll([x, i], z3.And(digit(x, i) >= 0, digit(x, i) <= 255), patterns=[digit(x, i)])]
    for w in (1, 2, 4, 8):
        body = z3.Implies(z3.And(x >= 0, x < 256 ** w),
                          z3.Sum([digit(x, z3.IntVal(k)) * 256 ** k for k in range(w)]) == x)
        pats = [digit(x, z3.IntVal(0))] if w == 1 else [z3.MultiPattern(digit(x, z3.IntVal(0)), digit(x, z3.IntVal(w - 1)))]
        out.append(z3.ForAll([x], body, patterns=pats))
    return out


def prove_digit_lemmas():
    """bit-vector proofs of the digit-sum identities (width 1,2,4,8): returns list of (width, result)"""
    res = []
    for w in (1, 2, 4, 8):
        xb = z3.BitVec("xb", 8 * w)
        ds = [z3.ZeroExt(8 * w - 8, z3.Extract(8 * k + 7, 8 * k, xb)) if w > 1 else xb for k in range(w)]
        tot = ds[0]
        for k in range(1, w):
            tot = tot + (ds[k] << (8 * k))
        s = z3.Solver()
        s.add(tot != xb)
        res.append((w, str(s.check())))
    return res


def struct_pack(ex, st, fmt, args, line):
    from .lib_models import f32
    fields, size, big = fmt_layout(fmt)
    if len(args) != len(fields):
        raise Unsupported("struct.pack: wrong number of values")
    ex.lib_used.add(f"struct.Struct({fmt!r}): field offsets/sizes taken from the running CPython "
                    f"(size {size}); integers as explicit base-256 digits, out-of-range values raise struct.error")
    arr = z3.K(z3.IntSort(), z3.IntVal(0))
    for (code, off, w), v in zip(fields, args):
        if code == "f":
            ex.lib_used.add("struct 'f' field: IEEE binary32 bit pattern f32bits(x) with f32val(f32bits(x)) == f32(x)")
            from .sym import as_real
            bits = f32bits(as_real(v))
            st.pc.append(z3.And(bits >= 0, bits < 2 ** 32))
            val = bits
        else:
            x = as_int(v)
            signed = code in "iqlh"
            lo, hi = (-(2 ** (8 * w - 1)), 2 ** (8 * w - 1) - 1) if signed else (0, 2 ** (8 * w) - 1)
            ex.oblige(st, f"L{line}.struct_pack_{code}_in_range", z3.And(x >= lo, x <= hi))
            val = z3.If(x < 0, x + 2 ** (8 * w), x) if signed else x
        for i, d in enumerate(digits(val, w, big)):
            arr = z3.Store(arr, off + i, d)
    return VSeq([arr], z3.IntVal(size), TInt(0, 255), "bytes")


def struct_unpack(ex, st, fmt, data, line, exact=True):
    fields, size, big = fmt_layout(fmt)
    if not isinstance(data, VSeq):
        raise Unsupported("struct.unpack of a non-bytes value")
    ex.lib_used.add(f"struct.Struct({fmt!r}).unpack: little/big-endian integer of the field bytes "
                    f"(size {size}, offsets from the running CPython)")
    if exact:
        ex.oblige(st, f"L{line}.struct_unpack_exact_size", data.ln == size)
    else:
        ex.oblige(st, f"L{line}.struct_unpack_enough_bytes", data.ln >= size)
    a = data.comps[0]
    out = []
    for code, off, w in fields:
        raw = be_uint(a, off, w) if big else le_uint(a, off, w)
        if code == "f":
            out.append(VReal(f32val(raw)))
        elif code in "iqlh":
            out.append(VInt(z3.If(raw >= 2 ** (8 * w - 1), raw - 2 ** (8 * w), raw)))
        else:
            out.append(VInt(raw))
    return VTuple(out)


def struct_method(ex, st, recv, name, args, node):
    line = ex.cur_line
    if name == "pack":
        return struct_pack(ex, st, recv.fmt, args, line)
    if name == "unpack":
        return struct_unpack(ex, st, recv.fmt, args[0], line, exact=True)
    if name == "unpack_from":
        return struct_unpack(ex, st, recv.fmt, args[0], line, exact=False)
    raise Unsupported(f"Struct.{name}")


def fileptr_apply_pending(ex, st, loc, fp):
    """move the buffered write (if any) into the mapped file"""
    from .values import VFilePtr
    owner = loc[1]
    target = ("vfield", owner, "_bloom")
    cur = ex.read(st, target)
    j = z3.Int(fresh_name("fw"))
    ex.oblige(st, f"L{ex.cur_line}.file_write_within_file",
              z3.Implies(fp.haspend, z3.And(fp.ppos >= 0, fp.ppos + fp.plen <= cur.ln)))
    newarr = z3.Lambda([j], z3.If(z3.And(fp.haspend, fp.ppos <= j, j < fp.ppos + fp.plen),
                                  fp.parr[j - fp.ppos], cur.comps[0][j]))
    ex.write(st, target, VSeq([newarr], cur.ln, cur.et, cur.kind), structural=False)
    return VFilePtr(fp.isnone, fp.pos, fp.closed, z3.BoolVal(False), fp.ppos, fp.plen, fp.parr)


def fileptr_method(ex, st, loc, fp, name, args):
    """buffered read/write file object on the file mapped by the owner's `_bloom` (BufferedRandom):
    write() goes to a user-space buffer, flush()/seek()/close() move it into the file"""
    from .values import VFilePtr, VNone
    ex.lib_used.add("file object (open(path, 'r+b')) on the mmapped file: write() is buffered in user space until "
                    "flush()/seek()/close(); a flushed write of <= 8 bytes becomes visible atomically; bytes in the "
                    "page cache survive a killed process (power loss / kernel crash out of scope)")
    ex.oblige(st, f"L{ex.cur_line}.file_pointer_open", z3.And(z3.Not(fp.isnone), z3.Not(fp.closed)))
    if loc[0] != "vfield":
        raise Unsupported("file object not held in an object field")
    if name == "seek":
        fp = fileptr_apply_pending(ex, st, loc, fp)
        off = as_int(args[0])
        target = ex.read(st, ("vfield", loc[1], "_bloom"))
        whence = args[1] if len(args) > 1 else None
        from .values import VBuiltin
        if isinstance(whence, VBuiltin) and whence.name.endswith("SEEK_END"):
            pos = target.ln + off
        elif whence is None:
            pos = off
        else:
            raise Unsupported("seek whence")
        ex.oblige(st, f"L{ex.cur_line}.seek_position_nonneg", pos >= 0)
        ex.write(st, loc, VFilePtr(fp.isnone, pos, fp.closed, fp.haspend, fp.ppos, fp.plen, fp.parr))
        return VNone()
    if name == "write":
        fp = fileptr_apply_pending(ex, st, loc, fp)
        data = args[0]
        if not isinstance(data, VSeq):
            raise Unsupported("file.write of a non-bytes value")
        ex.write(st, loc, VFilePtr(fp.isnone, fp.pos + data.ln, fp.closed, z3.BoolVal(True), fp.pos, data.ln,
                                   data.comps[0]))
        return VInt(data.ln)
    if name == "flush":
        ex.write(st, loc, fileptr_apply_pending(ex, st, loc, fp))
        return VNone()
    if name == "close":
        fp = fileptr_apply_pending(ex, st, loc, fp)
        ex.write(st, loc, VFilePtr(fp.isnone, fp.pos, z3.BoolVal(True), fp.haspend, fp.ppos, fp.plen, fp.parr))
        return VNone()
    raise Unsupported(f"file.{name}")


def real_axioms():
    from .lib_models import f32, r_log, r_pow, r_exp
    x = z3.Real("x!ra")
    y = z3.Real("y!ra")
    b = z3.Int("b!ra")
    return [
        (("f32",), z3.ForAll([x], f32(f32(x)) == f32(x), patterns=[f32(f32(x))])),
        (("f32val", "f32bits"), z3.ForAll([x], f32val(f32bits(x)) == f32(x), patterns=[f32bits(x)])),
        (("f32val",), z3.ForAll([b], f32(f32val(b)) == f32val(b), patterns=[f32val(b)])),
        (("f32val", "f32bits"), z3.ForAll([b], z3.Implies(z3.And(0 <= b, b < 2 ** 32), f32bits(f32val(b)) == b),
                                          patterns=[f32val(b)])),
        (("r_log",), z3.ForAll([x], z3.Implies(z3.And(x > 0, x < 1), r_log(x) < 0), patterns=[r_log(x)])),
        (("r_log",), r_log(z3.RealVal(1)) == 0),
        (("r_pow",), z3.ForAll([x, y], z3.Implies(x > 0, r_pow(x, y) > 0), patterns=[r_pow(x, y)])),
        (("r_exp",), z3.ForAll([x], r_exp(x) > 0, patterns=[r_exp(x)])),
        (("r_log",), z3.ForAll([x], z3.Implies(x > 1, r_log(x) > 0), patterns=[r_log(x)])),
        # float32 narrowing is monotone and fixes 0 and 1
        (("f32",), z3.ForAll([x], z3.And(z3.Implies(x <= 1, f32(x) <= 1), z3.Implies(x >= 1, f32(x) >= 1),
                                         z3.Implies(x >= 0, f32(x) >= 0), z3.Implies(x <= 0, f32(x) <= 0)),
                             patterns=[f32(x)])),
    ]


def stream_method(ex, st, recv, name, args, node):
    raise Unsupported(f"stream.{name} (stream model)")


def seq_io_method(ex, st, recv, name, args, node):
    raise Unsupported(f"sequence method {name}")


def exec_with(ex, s, st):
    raise Unsupported("with-statement (stream model)")
