"""Registry for sidecar contracts.  Pure data, importable without z3 (used by the
symbolic engine under python3-vt *and* by the native replay layer under /venv/bin/python)."""
from __future__ import annotations

CONTRACTS = {}      # key "Class.method" or "module.func"  -> Contract
CLASSES = {}        # short class name -> ClassInfo
LEMMAS = {}         # lemma name -> Lemma
THEORY_USES = {}    # property id -> set of theory names (filled by the engine)


def _named(clauses, prefix):
    out = []
    for i, c in enumerate(clauses or []):
        if isinstance(c, (tuple, list)):
            out.append((str(c[0]), str(c[1])))
        else:
            out.append((f"{prefix}{i}", str(c)))
    return out


class Contract:
    def __init__(self, key, **kw):
        self.key = key
        self.params = dict(kw.pop("params", {}))          # name -> type string
        self.returns = kw.pop("returns", "none")          # type string of the result
        self.requires = _named(kw.pop("requires", []), "req")
        self.ensures = _named(kw.pop("ensures", []), "ens")
        # raises: exception name -> {"when": expr (over pre-state), "state": "unchanged"|"any"}
        self.raises = {}
        for exc, spec in dict(kw.pop("raises", {})).items():
            if isinstance(spec, str):
                spec = {"when": spec}
            self.raises[exc] = {"when": spec["when"], "state": spec.get("state", "unchanged"),
                                "must": bool(spec.get("must", True)),
                                # clauses that hold in the state in which the exception leaves the function
                                "ensures": _named(spec.get("ensures", []), "exc")}
        self.modifies = list(kw.pop("modifies", []))       # e.g. ["self._bloom", "self._els_added"]
        self.loops = dict(kw.pop("loops", {}))             # ordinal -> {"invariant": [...]}
        for k, v in list(self.loops.items()):
            v = dict(v)         # {"invariant": [...]}  or  {"unreached": True} (a loop in a branch this contract's argument kind never takes)
            v["invariant"] = _named(v.get("invariant", []), "inv")
            self.loops[k] = v
        # receiver classes for which the body reached through the MRO is verified
        self.contexts = list(kw.pop("contexts", []))
        self.module = kw.pop("module", None)               # for plain functions: module path
        self.kind = kw.pop("kind", "method")               # method | function | classmethod | staticmethod | lemma
        self.ghost = dict(kw.pop("ghost", {}))             # extra ghost parameters name -> type
        # ghost arguments this function passes at its call sites: callee key -> {ghost name: specification expression
        # evaluated in the caller's state at the call}
        self.ghost_args = dict(kw.pop("ghost_args", {}))
        # sidecar proof hints (ghost assertions): "before_call:<callee key>" / "after_call:<callee key>" -> [(name, text)];
        # each hint is an OBLIGATION of this function at that point and is assumed afterwards (like an `assert` in ghost
        # code); in after_call hints `_ret` is the value the callee returned
        self.hints = {k: _named(v, "hint") for k, v in dict(kw.pop("hints", {})).items()}
        self.properties = list(kw.pop("properties", []))   # property ids this contract serves
        self.trusted = bool(kw.pop("trusted", False))      # assumed, body not verified (listed in evidence)
        self.trusted_reason = kw.pop("trusted_reason", "")
        self.alias_cases = list(kw.pop("alias_cases", []))  # e.g. [("second", "self")]
        self.fresh_result = bool(kw.pop("fresh_result", False))
        self.pure = bool(kw.pop("pure", False))
        # the function is outside the verifier's data model BY DESIGN and its contract is only checked natively in a
        # small scope (labelled bounded).  For every other function an "unsupported" body is an undecided verdict.
        self.bounded_only = bool(kw.pop("bounded_only", False))
        # decorators the contract knows about (source text, e.g. "hash_with_depth_bytes"): the contract then describes
        # the undecorated body and another contract covers the wrapper.  Any OTHER decorator on the function makes a
        # call run code this contract says nothing about -> outside the verifier's subset.
        self.decorators = list(kw.pop("decorators", []))
        self.note = kw.pop("note", "")
        self.result_fields_unconstrained = kw.pop("result_fields_unconstrained", False)
        self.bind = dict(kw.pop("bind", {}))
        # ghost definitions evaluated once in the pre-state, usable in requires/ensures/invariants: [(name, expr)]
        self.let = [(str(a), str(b)) for a, b in kw.pop("let", [])]
        # the result IS this specification expression (call sites get the term itself, the body is checked
        # against `result == <expr>`)
        self.result_is = kw.pop("result_is", None)
        # names of @opaque specification functions whose definition this proof may use
        self.reveal = list(kw.pop("reveal", []))
        # declared types of locals that start as an empty list literal: name -> type string
        self.locals = dict(kw.pop("locals", {}))
        # list-valued fields (subset of modifies) that the function replaces by a NEW list object before it mutates
        # them: references to the old list object held by callers stay valid (lists are modelled by value)
        self.rebinds = list(kw.pop("rebinds", []))
        # every-point invariant: clauses that must hold after EVERY executed statement of the body (the deductive
        # counterpart of "at each executed source line", used for crash points)
        self.pointwise = _named(kw.pop("pointwise", []), "pt")
        self._kw = None
        # extra runs with some parameter types replaced, e.g. [{"second": "obj:BloomFilterOnDisk"}, {"second": "foreign"}]
        self.variants = list(kw.pop("variants", []))               # lemma text: local name -> contract key
        if kw:
            raise TypeError(f"unknown contract keys for {key}: {sorted(kw)}")


class ClassInfo:
    def __init__(self, name, module, fields, bases=(), inv=None, consts=None):
        self.name = name
        self.module = module
        self.fields = dict(fields)      # *mangled* field name -> type string
        self.bases = list(bases)
        self.inv = inv
        self.consts = dict(consts or {})


def contract(key, **kw):
    if key in CONTRACTS:
        raise KeyError(f"duplicate contract {key}")
    saved = {k: (list(v) if isinstance(v, list) else (dict(v) if isinstance(v, dict) else v)) for k, v in kw.items()}
    c = Contract(key, **kw)
    c._kw = saved
    CONTRACTS[key] = c
    return c


def clone_contract(key, newkey, **overrides):
    """same specification under another key, e.g. "Base.m@Derived" (the base-class body run on a derived
    receiver, as reached through super())"""
    kw = dict(CONTRACTS[key]._kw)
    kw.update(overrides)
    return contract(newkey, **kw)


def classinfo(name, module, fields, bases=(), inv=None, consts=None):
    merged = {}
    for b in bases:
        merged.update(CLASSES[b].fields)
    merged.update(fields)
    CLASSES[name] = ClassInfo(name, module, merged, bases, inv, consts)
    return CLASSES[name]


class Lemma:
    """A property lemma: a ghost function (source text in the engine's subset) whose body may
    only *call* functions under contract; verified like any other function."""

    def __init__(self, name, source, **kw):
        self.name = name
        self.source = source
        self.contract_kw = kw


def lemma(name, source, **kw):
    if name in LEMMAS:
        raise KeyError(f"duplicate lemma {name}")
    LEMMAS[name] = Lemma(name, source, **kw)
    return LEMMAS[name]
