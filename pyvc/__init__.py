"""pyvc - a small contract-based VC generator for the Python subset used by pyprobables."""
