"""Symbolic executor / VC generator over the Python AST of the real source.

One `Exec` verifies one (contract, receiver class) pair: the body found through the MRO in
/repo's current working tree is executed path by path; loops are cut at their sidecar
invariants; calls to functions under contract are replaced by assert-pre / havoc-frame /
assume-post; every subscript, typed store, division, ... generates a safety obligation."""
from __future__ import annotations

import ast
import copy

import z3

from . import theories as TH
from .api import CLASSES, CONTRACTS
from .frontend import mangle, strip_docstring
from .values import *  # noqa: F401,F403
from .values import TFilePtr, VFilePtr, VZip  # noqa: E402
from .values import (Flattener, T, TAny, TBool, TFunc, TInt, TMap, TNone, TObj, TOpt, TReal, TSeq, TStr, TStream,
                     TTuple, V, VBool, VBoundMethod, VBuiltin, VClass, VEnum, VFunc, VInt, VMap, VModule, VNone,
                     VOpaque, VOpt, VRange, VReal, VRef, VSeq, VStr, VStream, VStruct, VStructFmt, VTuple,
                     fresh_name, parse_type)


class Unsupported(Exception):
    """the function left the supported subset; never a verdict about the property"""


class Obligation:
    __slots__ = ("name", "pc", "goal", "line", "kind", "func")

    def __init__(self, name, pc, goal, line=0, kind="ensures", func=""):
        self.name, self.pc, self.goal, self.line, self.kind, self.func = name, list(pc), goal, line, kind, func


class _Filtered(Exception):
    pass


class NeedsFork(Exception):
    """an inlined helper (a function without contract) returned along several paths, or along none: only a statement
    whose whole value is that call can continue on each of them"""

    def __init__(self, node, conts):
        super().__init__("call of a multi-path helper without contract inside an expression")
        self.node, self.conts = node, conts


class Exit:
    def __init__(self, kind, st, value=None, exc=None, line=0):
        self.kind, self.st, self.value, self.exc, self.line = kind, st, value, exc, line


class State:
    def __init__(self):
        self.env = {}
        self.heap = {}          # oid -> VStruct
        self.pc = []
        self.epochs = {}        # root location -> int
        self.moved = set()
        self.streams = {}       # sid -> VSeq (bytes written so far)
        self.fs = None          # (data: Array Int (Array Int Int), lens: Array Int Int, exists: Array Int Bool) or None
        self.next_oid = [0]
        self.writelog = None    # shared list during loop dry-runs
        self.inplace = {}       # container field/var -> number of in-place mutations (alias staleness check)
        self.nwrites = [0]      # shared counter of state writes (to reject side effects in conditional expressions)
        self.rebound = set()    # list fields assigned a fresh list object in this function
        self.rebindcnt = {}     # list field -> number of times it was bound to another list object
        self.aliasof = {}       # local name -> location of the list / dict field whose OBJECT the local denotes
        self.aliasep = {}       # local name -> (container key, structural epoch) for aliases of an ELEMENT of a list field

    def fork(self):
        s = State.__new__(State)
        s.env = dict(self.env)
        s.heap = dict(self.heap)
        s.pc = list(self.pc)
        s.epochs = dict(self.epochs)
        s.moved = set(self.moved)
        s.streams = dict(self.streams)
        s.next_oid = self.next_oid
        s.writelog = self.writelog
        s.inplace = dict(self.inplace)
        s.nwrites = self.nwrites
        s.rebound = set(self.rebound)
        s.rebindcnt = dict(self.rebindcnt)
        s.aliasof = dict(self.aliasof)
        s.aliasep = dict(self.aliasep)
        s.fs = self.fs
        return s

    def new_oid(self):
        self.next_oid[0] += 1
        return self.next_oid[0]


EXC_NAMES = {"IndexError", "ValueError", "TypeError", "KeyError", "OverflowError", "ZeroDivisionError",
             "InitializationError", "NotSupportedError", "CuckooFilterFullError", "RotatingBloomFilterError",
             "CountMinSketchError", "QuotientFilterError", "AssertionError", "FileNotFoundError", "struct.error"}


def root_of(loc):
    while loc[0] in ("elem", "vfield"):
        loc = loc[1]
    return loc


def as_int(v):
    if isinstance(v, VOpt):
        v = v.val
    if isinstance(v, VOpaque) and v.desc == "foreign":
        return z3.Int(fresh_name("foreign_int"))
    if isinstance(v, VInt):
        return v.t
    if isinstance(v, VBool):
        return z3.If(v.t, z3.IntVal(1), z3.IntVal(0))
    raise Unsupported(f"expected int, got {v}")


def as_real(v):
    if isinstance(v, VOpt):
        v = v.val
    if isinstance(v, VReal):
        return v.t
    if isinstance(v, (VInt, VBool)):
        return z3.ToReal(as_int(v))
    raise Unsupported(f"expected number, got {v}")


def is_pow2_minus1(n):
    return n >= 0 and (n + 1) & n == 0


class Engine:
    """shared, read-only context: repository tables, contracts, spec functions"""

    def __init__(self, repo, spec_tree=None, inline=()):
        self.repo = repo
        self.flat = Flattener(self.class_fields)
        self.spec_funcs = {}
        if spec_tree is not None:
            for node in spec_tree.body:
                if isinstance(node, ast.FunctionDef):
                    self.spec_funcs[node.name] = node
        self.inline = set(inline)
        self._cf_cache = {}
        self.recfuns = {}
        self.axioms_extra = []

    def class_fields(self, cls):
        if cls not in self._cf_cache:
            if cls not in CLASSES:
                raise Unsupported(f"no classinfo for {cls}")
            self._cf_cache[cls] = {f: parse_type(t) for f, t in CLASSES[cls].fields.items()}
        return self._cf_cache[cls]

    def contract_for(self, cls, name):
        """contract applying to method `name` on receiver class `cls` (walk the MRO)"""
        for k in self.repo.mro(cls) if cls in self.repo.classes else [cls]:
            c = CONTRACTS.get(f"{k}.{name}@{cls}")
            if c is not None:
                return c
            c = CONTRACTS.get(f"{k}.{name}")
            if c is not None and (not c.contexts or cls in c.contexts):
                return c
        return None


class Exec:
    def __init__(self, eng: Engine, funcname="", module=None, cls=None, contract=None):
        self.eng = eng
        self.repo = eng.repo
        self.flat = eng.flat
        self.obligations = []
        self.exits = []
        self.module = module          # module of the code being executed (for globals)
        self.defcls = cls             # class whose body is executing (for name mangling / super())
        self.funcname = funcname
        self.contract = contract
        self.spec = 0                 # >0 : evaluating a specification expression
        self.pre = None               # snapshot state at function entry (for old())
        self.loop_ord = 0
        self.loop_entry = []          # stack of snapshots for at_entry()
        self.binder_marks = []        # stack of (vars, pc length)
        self.result = None
        self.trusted_used = set()     # callee contracts used
        self.lib_used = set()
        self.inlined = set()
        self.dry = 0
        self.cur_line = 0
        self.nodeprefix = "F"

    # ------------------------------------------------------------------ obligations --
    def oblige(self, st, name, goal, kind="safety"):
        if self.spec or self.dry:
            return
        pc = st.pc
        if self.binder_marks:
            vars_, mark = [], self.binder_marks[0][1]
            for vs, _ in self.binder_marks:
                vars_ += vs
            inner = st.pc[mark:]
            goal = z3.ForAll(vars_, z3.Implies(z3.And(*inner) if inner else z3.BoolVal(True), goal))
            pc = st.pc[:mark]
        self.obligations.append(Obligation(f"{self.nodeprefix}.{self.funcname}.{name}", pc, goal, self.cur_line,
                                           kind, self.funcname))

    def assume(self, st, fact):
        st.pc.append(fact)

    # ------------------------------------------------------------------ locations ----
    def read(self, st, loc):
        k = loc[0]
        if k == "var":
            if loc[1] not in st.env:
                raise Unsupported(f"unbound local {loc[1]}")
            return st.env[loc[1]]
        if k == "obj":
            if loc[1] in st.moved:
                raise Unsupported("use of an object after it was stored into a container")
            return st.heap[loc[1]]
        if k == "vfield":
            parent = self.read(st, loc[1])
            if isinstance(parent, VRef):
                parent = self.read(st, parent.loc)
            if not isinstance(parent, VStruct) or loc[2] not in parent.fields:
                raise Unsupported(f"no field {loc[2]} on {parent}")
            return parent.fields[loc[2]]
        if k == "elem":
            parent = self.read(st, loc[1])
            if not isinstance(parent, VSeq):
                raise Unsupported(f"element of non-sequence {parent}")
            return self.seq_get(parent, loc[2])
        raise Unsupported(f"bad location {loc}")

    def write(self, st, loc, v, structural=True, _log=True):
        st.nwrites[0] += 1
        if st.writelog is not None and _log:
            st.writelog.append((root_of(loc), loc, structural))
        k = loc[0]
        if k == "var":
            st.env[loc[1]] = v
            st.aliasof.pop(loc[1], None)
            st.aliasep.pop(loc[1], None)
            if structural:
                st.epochs[loc] = st.epochs.get(loc, 0) + 1
        elif k == "obj":
            st.heap[loc[1]] = v
        elif k == "vfield":
            parent = self.read(st, loc[1])
            if isinstance(parent, VRef):
                return self.write(st, ("vfield", parent.loc, loc[2]), v, structural, _log=False)
            if not isinstance(parent, VStruct):
                raise Unsupported(f"field write on {parent}")
            ft = self.eng.class_fields(parent.cls).get(loc[2])
            if ft is None:
                raise Unsupported(f"class {parent.cls} has no declared field {loc[2]}")
            v = self.coerce(st, v, ft, f"store.{loc[2]}")
            nf = dict(parent.fields)
            nf[loc[2]] = v
            if structural:
                r = ("field", loc[1], loc[2])
                st.epochs[r] = st.epochs.get(r, 0) + 1
            self.write(st, loc[1], VStruct(parent.cls, nf), structural=False, _log=False)
        elif k == "elem":
            parent = self.read(st, loc[1])
            if not isinstance(parent, VSeq):
                raise Unsupported("element write on non-sequence")
            if _log:
                key = self.epoch_key(loc)
                st.inplace[key] = st.inplace.get(key, 0) + 1
                self.check_rebinds(st, key)
            self.write(st, loc[1], self.seq_set(st, parent, loc[2], v), structural=False, _log=False)
        else:
            raise Unsupported(f"bad location {loc}")

    def alias_loc(self, st, n):
        loc = st.aliasof[n]
        if loc[0] == "stale":
            raise Unsupported(f"local {n} denotes a list object that a callee replaced in its field")
        ep = st.aliasep.get(n)
        if ep is not None and st.epochs.get(ep[0], 0) != ep[1]:
            raise Unsupported(f"local {n} denotes an element of a list that was structurally modified afterwards")
        return loc

    def detach_aliases(self, st, loc, stale=False):
        """the field at `loc` is about to be bound to ANOTHER list object: locals that denote the old object keep its
        content as of now (stale=True: a callee did it, the old object's content is unknown)"""
        for n, l in list(st.aliasof.items()):
            if l == loc or (l[0] == "elem" and l[1] == loc):
                if stale:
                    st.aliasof[n] = ("stale",)
                else:
                    del st.aliasof[n]      # st.env[n] already holds ... refresh it with the current content
                    st.env[n] = self.read(st, loc)

    def check_rebinds(self, st, key):
        must = getattr(self, "rebind_keys", ())
        if key in must and key not in st.rebound and not self.dry:
            raise Unsupported("in-place mutation of a list that the contract promises to replace by a new object first")

    def epoch_key(self, loc):
        """structural epoch of the innermost container field/var along loc"""
        while loc[0] == "elem":
            loc = loc[1]
        if loc[0] == "vfield":
            return ("field", loc[1], loc[2])
        return loc

    def deref(self, st, v):
        """VRef -> VStruct (checking staleness)"""
        if isinstance(v, VRef):
            if v.epoch is not None:
                key, ep = v.epoch
                if st.epochs.get(key, 0) != ep:
                    raise Unsupported("stale reference into a container that was structurally modified")
            return self.read(st, v.loc)
        return v

    # ------------------------------------------------------------------ sequences ----
    def seq_get(self, seq: VSeq, idx):
        return self.flat.unpack(seq.et, [a[idx] for a in seq.comps])

    def seq_set(self, st, seq: VSeq, idx, v):
        v = self.coerce(st, v, seq.et, "store.elem", typed_store=seq.kind)
        terms = self.flat.pack(seq.et, v)
        return VSeq([z3.Store(a, idx, t) for a, t in zip(seq.comps, terms)], seq.ln, seq.et, seq.kind)

    def coerce(self, st, v, t: T, what, typed_store=None):
        """adapt value v to declared type t (dereference objects being stored by value,
        wrap optionals, check typed-array ranges)"""
        if isinstance(t, TAny):
            return v
        if isinstance(t, TObj):
            if isinstance(v, VRef):
                val = self.deref(st, v)
                if v.loc[0] == "obj":
                    st.moved.add(v.loc[1])
                return val
            return v
        if isinstance(t, TOpt):
            if isinstance(v, VNone):
                return VOpt(z3.BoolVal(True), self.flat.unpack(t.t, self.flat.default_terms(t.t)))
            if isinstance(v, VOpt):
                return v
            return VOpt(z3.BoolVal(False), self.coerce(st, v, t.t, what))
        if isinstance(v, VOpt) and not isinstance(t, TOpt):
            self.oblige(st, f"L{self.cur_line}.{what}.not_none", z3.Not(v.isnone))
            v = v.val
        if isinstance(t, TInt):
            if isinstance(v, VBool):
                v = VInt(as_int(v))
            if not isinstance(v, VInt):
                raise Unsupported(f"{what}: storing {v} where int expected")
            if typed_store and typed_store.startswith("array:") or typed_store == "bytes" or typed_store == "mmap":
                cs = []
                if t.lo is not None:
                    cs.append(v.t >= t.lo)
                if t.hi is not None:
                    cs.append(v.t <= t.hi)
                if cs:
                    self.oblige(st, f"L{self.cur_line}.typed_store_in_range", z3.And(*cs), "safety")
            return v
        if isinstance(t, TReal):
            if isinstance(v, (VInt, VBool)):
                return VReal(as_real(v))
            return v
        if isinstance(t, TStr) and isinstance(v, VBoundMethod):
            return VStr.const("method:" + v.name.lstrip("_"))
        if isinstance(t, TFilePtr):
            if isinstance(v, VNone):
                return self.flat.unpack(t, self.flat.pack(t, v))
            return v
        if isinstance(t, TFunc):
            if isinstance(v, VBuiltin):
                from .values import str_code
                return VFunc(z3.IntVal(str_code("function:" + v.name)), t.kind)
            return v
        if isinstance(t, TSeq) and isinstance(v, VSeq):
            if z3.is_int_value(z3.simplify(v.ln)) and z3.simplify(v.ln).as_long() == 0 \
                    and len(self.flat.sorts(t.elem)) != len(v.comps):
                # the empty list literal stored where a list of objects is declared
                comps = [z3.Const(fresh_name("nil"), z3.ArraySort(z3.IntSort(), srt)) for srt in self.flat.sorts(t.elem)]
                return VSeq(comps, z3.IntVal(0), t.elem, t.kind)
            if isinstance(v.et, TOpt) and not isinstance(t.elem, TOpt) \
                    and len(self.flat.sorts(t.elem)) == len(v.comps) - 1:
                # a list of optionals stored where a list of plain values is declared: no element may be None
                q = z3.Int("q%optelem")
                self.oblige(st, f"L{self.cur_line}.{what}.no_element_is_none",
                            z3.ForAll([q], z3.Implies(z3.And(0 <= q, q < v.ln), z3.Not(z3.Select(v.comps[0], q)))))
                return VSeq(v.comps[1:], v.ln, t.elem, v.kind)
            return VSeq(v.comps, v.ln, v.et, t.kind if v.kind == "list" and t.kind != "list" else v.kind)
        return v

    def type_of(self, v) -> T:
        if isinstance(v, VInt):
            return TInt()
        if isinstance(v, VBool):
            return TBool()
        if isinstance(v, VReal):
            return TReal()
        if isinstance(v, VStr):
            return TStr()
        if isinstance(v, VFunc):
            return TFunc(v.kind)
        if isinstance(v, VNone):
            return TNone()
        if isinstance(v, VSeq):
            return TSeq(v.et, v.kind)
        if isinstance(v, VStruct):
            return TObj(v.cls)
        if isinstance(v, VOpt):
            return TOpt(self.type_of(v.val))
        if isinstance(v, VTuple):
            return TTuple([self.type_of(x) for x in v.items])
        if isinstance(v, VMap):
            return TMap()
        if isinstance(v, VFilePtr):
            return TFilePtr()
        if isinstance(v, VOpaque):
            return TAny()
        if isinstance(v, VStream):
            return TStream()
        raise Unsupported(f"no type for {v}")

    def fresh_terms(self, t, name):
        """fresh z3 terms for type t; inside a binder they are fresh *functions* of the bound variables"""
        if not self.binder_marks:
            return None
        vars_ = []
        for vs, _ in self.binder_marks:
            vars_ += vs
        out = []
        for i, srt in enumerate(self.flat.sorts(t)):
            f = z3.Function(fresh_name(f"{name}.{i}"), *([z3.IntSort()] * len(vars_)), srt)
            out.append(f(*vars_))
        return out

    def fresh(self, st, t: T, name, facts=True):
        if self.binder_marks and not isinstance(t, (TObj, TNone, TAny)):
            v = self.flat.unpack(t, self.fresh_terms(t, name))
            if facts:
                st.pc += self.flat.facts(t, v)
            return v
        if isinstance(t, TObj):
            val = self.flat.fresh(t, name)
            oid = st.new_oid()
            st.heap[oid] = val
            if facts:
                st.pc += self.flat.facts(t, val)
            return VRef(("obj", oid), t.cls)
        if isinstance(t, TNone):
            return VNone()
        if isinstance(t, TAny) and getattr(t, "structfmt", None) is not None:
            return VStructFmt(t.structfmt)
        if isinstance(t, TAny):
            return VOpaque("foreign" if getattr(t, "foreign", False) else name)
        if isinstance(t, TStream):
            sid = st.new_oid()
            content = self.flat.fresh(parse_type("bytes"), name + "_written")
            st.pc += self.flat.facts(parse_type("bytes"), content)
            st.streams[sid] = content
            return VStream(sid)
        v = self.flat.fresh(t, name)
        if facts:
            st.pc += self.flat.facts(t, v)
        return v

    # ------------------------------------------------------------------ truthiness ---
    def truth(self, st, v):
        if isinstance(v, VBool):
            return v.t
        if isinstance(v, VInt):
            return v.t != 0
        if isinstance(v, VReal):
            return v.t != 0
        if isinstance(v, VNone):
            return z3.BoolVal(False)
        if isinstance(v, VSeq):
            return v.ln > 0
        if isinstance(v, VOpt):
            return z3.And(z3.Not(v.isnone), self.truth(st, v.val))
        if isinstance(v, VMap):
            return v.card > 0
        if isinstance(v, (VRef, VStruct, VStream)):
            return z3.BoolVal(True)
        if isinstance(v, VFilePtr):
            return z3.Not(v.isnone)
        if isinstance(v, VStr) and v.lit is not None:
            return z3.BoolVal(bool(v.lit))
        if isinstance(v, VStr):
            from .values import str_code
            return v.t != str_code("")      # a text/path value is falsy exactly when it is the empty string
        raise Unsupported(f"truth value of {v}")

    # ------------------------------------------------------------------ expressions --
    def eval(self, node, st) -> V:
        m = getattr(self, "e_" + type(node).__name__, None)
        if m is None:
            raise Unsupported(f"expression {type(node).__name__} at line {getattr(node, 'lineno', '?')}")
        if hasattr(node, "lineno") and not self.spec:
            self.cur_line = node.lineno
        return m(node, st)

    def e_Constant(self, node, st):
        v = node.value
        if isinstance(v, bool):
            return VBool(v)
        if isinstance(v, int):
            return VInt(v)
        if isinstance(v, float):
            return VReal(z3.RealVal(repr(v)))
        if v is None:
            return VNone()
        if isinstance(v, str):
            return VStr.const(v)
        if isinstance(v, bytes):
            return VStr.const(v.decode("latin1"))
        raise Unsupported(f"constant {v!r}")

    def e_JoinedStr(self, node, st):
        # f"{int:x}" and friends: a deterministic injective function of the value; other f-strings opaque
        if len(node.values) == 1 and isinstance(node.values[0], ast.FormattedValue):
            fv = node.values[0]
            v = self.eval(fv.value, st)
            if isinstance(v, (VInt, VBool)):
                from . import lib_models
                fs = fv.format_spec
                if fs is None:
                    spec = ""
                elif isinstance(fs, ast.JoinedStr) and all(isinstance(x, ast.Constant) for x in fs.values):
                    spec = "".join(str(x.value) for x in fs.values)      # the same text format(v, spec) receives
                else:
                    spec = ast.unparse(fs)
                self.lib_used.add("f-string of one int: injective uninterpreted function of (format, value)")
                from .values import str_code
                return VStr(lib_models.fmt_int(z3.IntVal(str_code(spec)), as_int(v)))
        return VStr(z3.Int(fresh_name("fstr")))

    def e_Name(self, node, st):
        n = node.id
        if n in st.aliasof and n in st.env:
            # a local bound to the list / dict OBJECT held in a field: reads see the field's current content
            loc = self.alias_loc(st, n)
            v = self.read(st, loc)
            if isinstance(v, VSeq):
                v = VSeq(v.comps, v.ln, v.et, v.kind)
                v._loc = loc
            return v
        if n in st.env:
            v = st.env[n]
            if not self.spec:
                for x in (v.items if isinstance(v, VTuple) else [v]):
                    al = getattr(x, "_alias", None)
                    # (an alias of a list object the field no longer refers to cannot be changed through the field)
                    if al is not None and st.rebindcnt.get(al[0], 0) == al[2] and st.inplace.get(al[0], 0) != al[1]:
                        raise Unsupported(f"local {n} aliases a list that was mutated in place afterwards "
                                          "(lists are modelled by value)")
            return v
        if n == "result" and self.spec and self.result is not None:
            return self.result
        if n in ("True", "False"):
            return VBool(n == "True")
        # module-level constants of the module under execution
        if self.module and n in self.repo.consts.get(self.module, {}):
            return self.eval_const(self.repo.consts[self.module][n], self.module)
        if self.module and n in self.repo.imports.get(self.module, {}):
            mod, name = self.repo.imports[self.module][n]
            if name is None:
                return VModule(mod)
            if (mod, name) == ("sys", "byteorder"):
                import sys as _sys
                return VStr.const(_sys.byteorder)       # (the platform the struct layouts are taken from)
            if mod in self.repo.consts and name in self.repo.consts[mod]:
                return self.eval_const(self.repo.consts[mod][name], mod)
            if name in self.repo.classes:
                return VClass(name)
            if f"{mod}.{name}" in self.repo.funcs:
                return VBuiltin(f"{mod}.{name}")
            return VBuiltin(f"{mod}.{name}")
        if n in self.repo.classes:
            return VClass(n)
        if self.module and f"{self.module}.{n}" in self.repo.funcs:
            return VBuiltin(f"{self.module}.{n}")
        if n in self.eng.spec_funcs:
            return VBuiltin("spec." + n)
        if n in EXC_NAMES:
            return VClass(n)
        if self.module is None:
            # lemma / specification text: bare names of repository functions under contract
            if self.contract is not None and n in self.contract.bind:
                return VBuiltin(self.contract.bind[n])
            for k, c in CONTRACTS.items():
                if c.kind == "function" and k.endswith("." + n):
                    return VBuiltin(k)
        if n in CONST_NAMES:
            return VInt(CONST_NAMES[n])
        return VBuiltin(n)

    def eval_const(self, node, module):
        try:
            val = _const_eval(node, self.repo, module)
        except Exception:
            val = None
        if isinstance(val, bool):
            return VBool(val)
        if isinstance(val, int):
            return VInt(val)
        if isinstance(val, float):
            return VReal(z3.RealVal(repr(val)))
        if isinstance(val, str):
            return VStr.const(val)
        if isinstance(node, ast.Call) and isinstance(node.func, ast.Name) and node.func.id == "Struct":
            return VStructFmt(ast.literal_eval(node.args[0]) if isinstance(node.args[0], ast.Constant)
                              else _const_eval(node.args[0], self.repo, module))
        if isinstance(node, ast.Attribute) and isinstance(node.value, ast.Call):
            # Struct("B").size
            inner = self.eval_const(node.value, module)
            if isinstance(inner, VStructFmt) and node.attr == "size":
                import struct
                return VInt(struct.calcsize(inner.fmt))
        raise Unsupported(f"module/class constant {ast.dump(node)[:80]}")

    def e_Tuple(self, node, st):
        return VTuple([self.eval(e, st) for e in node.elts])

    def e_List(self, node, st):
        items = [self.eval(e, st) for e in node.elts]
        if not items:
            # a named (otherwise unconstrained) cell array: count terms over it are valid triggers
            return VSeq([z3.Const(fresh_name("nil"), z3.ArraySort(z3.IntSort(), z3.IntSort()))], z3.IntVal(0), TInt(), "list")
        et = self.type_of(self.deref(st, items[0]))
        comps = None
        for i, it in enumerate(items):
            terms = self.flat.pack(et, self.coerce(st, it, et, "list literal"))
            if comps is None:
                comps = [z3.K(z3.IntSort(), t) for t in terms]
            else:
                comps = [z3.Store(a, i, t) for a, t in zip(comps, terms)]
        return VSeq(comps, z3.IntVal(len(items)), et, "list")

    def e_Dict(self, node, st):
        if node.keys:
            raise Unsupported("non-empty dict literal")
        return VMap(z3.K(z3.IntSort(), z3.BoolVal(False)), z3.K(z3.IntSort(), z3.IntVal(0)), z3.IntVal(0))

    def e_UnaryOp(self, node, st):
        v = self.eval(node.operand, st)
        if isinstance(node.op, ast.Not):
            return VBool(z3.Not(self.truth(st, v)))
        if isinstance(node.op, ast.USub):
            if isinstance(v, VReal):
                return VReal(-v.t)
            return VInt(-as_int(v))
        if isinstance(node.op, ast.Invert):
            return VInt(TH.bnot(as_int(v)))   # Python: ~x == -x-1 exactly (axiom on bnot; keeps arithmetic out of triggers)
        if isinstance(node.op, ast.UAdd):
            return v
        raise Unsupported("unary op")

    def cond(self, node, st):
        """truth value of an expression used as a condition (and/or over non-boolean operands included)"""
        if isinstance(node, ast.BoolOp):
            self._bool_ctx = getattr(self, "_bool_ctx", 0) + 1
            try:
                v = self.e_BoolOp(node, st)
            finally:
                self._bool_ctx -= 1
            return self.truth(st, v)
        if isinstance(node, ast.UnaryOp) and isinstance(node.op, ast.Not):
            return z3.Not(self.cond(node.operand, st))
        return self.truth(st, self.eval(node, st))

    def e_BoolOp(self, node, st):
        # short-circuit: later operands are evaluated under the assumption of the earlier ones; facts learned
        # while evaluating an operand (callee postconditions, typing facts) are kept, guarded by that assumption
        vals, terms, kept = [], [], []
        guards = []
        for i, e in enumerate(node.values):
            mark = len(st.pc)
            st.pc += guards
            inner = len(st.pc)
            w0 = st.nwrites[0]
            v = self.eval(e, st)
            if i > 0 and st.nwrites[0] != w0 and not self.spec:
                raise Unsupported("state change inside a short-circuited operand")
            learned = st.pc[inner:]
            del st.pc[mark:]
            g = z3.And(*guards) if guards else None
            for f in learned:
                kept.append(f if g is None else z3.Implies(g, f))
            vals.append(v)
            tv = self.truth(st, v)
            terms.append(tv)
            stv = z3.simplify(tv)
            if (isinstance(node.op, ast.Or) and z3.is_true(stv)) or (isinstance(node.op, ast.And) and z3.is_false(stv)):
                break          # constant short-circuit: later operands are never evaluated
            guards.append(tv if isinstance(node.op, ast.And) else z3.Not(tv))
        if not self.spec or not self.binder_marks:
            st.pc += kept
        if all(isinstance(v, VBool) for v in vals) or getattr(self, "_bool_ctx", 0):
            return VBool(z3.And(*terms) if isinstance(node.op, ast.And) else z3.Or(*terms))
        # value-returning and/or (e.g. `a or b`): build an ite chain
        res = vals[-1]
        for v, tv in zip(reversed(vals[:-1]), reversed(terms[:-1])):
            res = self.ite(st, tv, res, v) if isinstance(node.op, ast.And) else self.ite(st, tv, v, res)
        return res

    def ite(self, st, c, a, b):
        a, b = self.deref_if_needed(a), self.deref_if_needed(b)
        if isinstance(a, VBoundMethod):
            a = VStr.const("method:" + a.name.lstrip("_"))
        if isinstance(b, VBoundMethod):
            b = VStr.const("method:" + b.name.lstrip("_"))
        if isinstance(a, VNone) and isinstance(b, VNone):
            return a
        if isinstance(a, VNone) or isinstance(b, VNone) or isinstance(a, VOpt) or isinstance(b, VOpt):
            other = b if isinstance(a, VNone) else a
            t = self.type_of(other.val if isinstance(other, VOpt) else other)
            oa, ob = self.coerce(st, a, TOpt(t), "ite"), self.coerce(st, b, TOpt(t), "ite")
            ta, tb = self.flat.pack(TOpt(t), oa), self.flat.pack(TOpt(t), ob)
            return self.flat.unpack(TOpt(t), [z3.If(c, x, y) for x, y in zip(ta, tb)])
        if isinstance(a, VStr) and isinstance(b, VStr):
            return VStr(z3.If(c, a.t, b.t))
        if isinstance(a, (VInt, VBool)) and isinstance(b, (VInt, VBool)) and not (isinstance(a, VBool) and isinstance(b, VBool)):
            return VInt(z3.If(c, as_int(a), as_int(b)))
        if isinstance(a, VReal) or isinstance(b, VReal):
            return VReal(z3.If(c, as_real(a), as_real(b)))
        try:
            t = self.type_of(a)
            ta, tb = self.flat.pack(t, a), self.flat.pack(t, b)
            return self.flat.unpack(t, [z3.If(c, x, y) for x, y in zip(ta, tb)])
        except (z3.Z3Exception, TypeError, AttributeError, KeyError) as e:
            raise Unsupported(f"conditional expression whose operands have different shapes ({type(e).__name__})")

    def deref_if_needed(self, v):
        return v

    def e_IfExp(self, node, st):
        c = self.cond(node.test, st)
        cs = z3.simplify(c)
        if z3.is_true(cs):
            return self.eval(node.body, st)
        if z3.is_false(cs):
            return self.eval(node.orelse, st)
        kept = []
        for guard, sub in ((c, node.body), (z3.Not(c), node.orelse)):
            mark = len(st.pc)
            st.pc.append(guard)
            w0 = st.nwrites[0]
            val = self.eval(sub, st)
            if st.nwrites[0] != w0 and not self.spec:
                raise Unsupported("state change inside a conditional expression")
            kept += [z3.Implies(guard, f) for f in st.pc[mark + 1:]]
            del st.pc[mark:]
            if sub is node.body:
                a = val
            else:
                b = val
        st.pc += kept
        return self.ite(st, c, a, b)

    def e_BinOp(self, node, st):
        a = self.eval(node.left, st)
        b = self.eval(node.right, st)
        return self.binop(st, node.op, a, b, node)

    def binop(self, st, op, a, b, node=None):
        if isinstance(a, VOpt):
            self.oblige(st, f"L{self.cur_line}.operand_not_none", z3.Not(a.isnone))
            a = a.val
        if isinstance(b, VOpt):
            self.oblige(st, f"L{self.cur_line}.operand_not_none", z3.Not(b.isnone))
            b = b.val
        # sequence repetition / concatenation
        if isinstance(op, ast.Mult) and isinstance(a, VSeq) and isinstance(b, (VInt, VBool)):
            return self.seq_repeat(st, a, as_int(b))
        if isinstance(op, ast.Add) and isinstance(a, VSeq) and isinstance(b, VSeq):
            return self.seq_concat(st, a, b)
        if isinstance(a, VSeq) or isinstance(b, VSeq):
            raise Unsupported("binary operation on sequences")
        real = isinstance(a, VReal) or isinstance(b, VReal)
        if isinstance(op, ast.Div):
            x, y = as_real(a), as_real(b)
            self.oblige(st, f"L{self.cur_line}.divisor_nonzero", y != 0)
            self.note_float("true division `/` evaluated in exact real arithmetic")
            if z3.is_rational_value(z3.simplify(y)) or z3.is_int_value(z3.simplify(y)):
                return VReal(x / y)
            # symbolic divisor: a function symbol defined by  y != 0 => rdiv(x, y) * y == x  (plus two consequences
            # stated as axioms: x/x == 1, and 0 <= x <= y => 0 <= x/y <= 1) - keeps the solver out of nonlinear search
            return VReal(TH.rdiv(x, y))
        if real:
            x, y = as_real(a), as_real(b)
            self.note_float("float arithmetic evaluated in exact real arithmetic")
            if isinstance(op, ast.Add):
                return VReal(x + y)
            if isinstance(op, ast.Sub):
                return VReal(x - y)
            if isinstance(op, ast.Mult):
                return VReal(x * y)
            if isinstance(op, ast.Pow):
                return VReal(TH_real("pow", x, y))
            raise Unsupported("float operator")
        x, y = as_int(a), as_int(b)
        if isinstance(op, ast.Add):
            return VInt(x + y)
        if isinstance(op, ast.Sub):
            return VInt(x - y)
        if isinstance(op, ast.Mult):
            return VInt(x * y)
        if isinstance(op, ast.FloorDiv):
            # Python floor division == SMT-LIB div for positive divisors
            self.oblige(st, f"L{self.cur_line}.divisor_positive", y > 0)
            return VInt(x / y)
        if isinstance(op, ast.Mod):
            self.oblige(st, f"L{self.cur_line}.modulus_positive", y > 0)
            if z3.is_int_value(z3.simplify(y)):
                return VInt(x % y)
            # symbolic modulus: an uninterpreted function with the range axiom  m > 0 => 0 <= pmod(x, m) < m
            # (all the proofs use of `x % m`); keeps nonlinear integer arithmetic out of the queries
            return VInt(TH.pmod(x, y))
        if isinstance(op, ast.LShift):
            self.oblige(st, f"L{self.cur_line}.shift_nonneg", y >= 0)
            return VInt(_mul(x, _pow2(y)))
        if isinstance(op, ast.RShift):
            self.oblige(st, f"L{self.cur_line}.shift_nonneg", y >= 0)
            return VInt(x / _pow2(y))        # floor division by 2**y: exact Python semantics
        if isinstance(op, ast.Pow):
            if z3.is_int_value(x) and x.as_long() == 2:
                self.oblige(st, f"L{self.cur_line}.exponent_nonneg", y >= 0)
                return VInt(_pow2(y))
            if z3.is_int_value(x) and z3.is_int_value(y) and y.as_long() >= 0:
                return VInt(x.as_long() ** y.as_long())
            raise Unsupported("general integer power")
        if isinstance(op, ast.BitAnd):
            return VInt(_band(x, y))
        if isinstance(op, ast.BitOr):
            return VInt(_bor(x, y))
        if isinstance(op, ast.BitXor):
            return VInt(TH.bxor(x, y))
        raise Unsupported(f"operator {type(op).__name__}")

    def note_float(self, msg):
        self.lib_used.add("float: " + msg)

    def e_Compare(self, node, st):
        left = self.eval(node.left, st)
        res = []
        for op, rn in zip(node.ops, node.comparators):
            right = self.eval(rn, st)
            res.append(self.compare(st, op, left, right))
            left = right
        return VBool(z3.And(*res) if len(res) > 1 else res[0])

    def compare(self, st, op, a, b):
        if (isinstance(a, VOpaque) and a.desc == "foreign") or (isinstance(b, VOpaque) and b.desc == "foreign"):
            return z3.Bool(fresh_name("foreign_cmp"))
        if isinstance(op, (ast.Is, ast.IsNot)):
            r = self.identical(st, a, b)
            return r if isinstance(op, ast.Is) else z3.Not(r)
        if isinstance(op, (ast.In, ast.NotIn)):
            r = self.contains(st, b, a)
            return r if isinstance(op, ast.In) else z3.Not(r)
        if isinstance(op, (ast.Eq, ast.NotEq)):
            r = self.equal(st, a, b)
            return r if isinstance(op, ast.Eq) else z3.Not(r)
        if isinstance(a, VOpt):
            self.oblige(st, f"L{self.cur_line}.operand_not_none", z3.Not(a.isnone))
            a = a.val
        if isinstance(b, VOpt):
            self.oblige(st, f"L{self.cur_line}.operand_not_none", z3.Not(b.isnone))
            b = b.val
        if isinstance(a, VReal) or isinstance(b, VReal):
            x, y = as_real(a), as_real(b)
        else:
            x, y = as_int(a), as_int(b)
        if isinstance(op, ast.Lt):
            return x < y
        if isinstance(op, ast.LtE):
            return x <= y
        if isinstance(op, ast.Gt):
            return x > y
        if isinstance(op, ast.GtE):
            return x >= y
        raise Unsupported("comparison operator")

    def identical(self, st, a, b):
        if isinstance(b, VNone):
            a, b = b, a
        if isinstance(a, VNone):
            if isinstance(b, VNone):
                return z3.BoolVal(True)
            if isinstance(b, VOpt):
                return b.isnone
            if isinstance(b, VFilePtr):
                return b.isnone
            return z3.BoolVal(False)
        if isinstance(a, VBool) and isinstance(b, VBool):
            return a.t == b.t
        if isinstance(a, VRef) and isinstance(b, VRef):
            return z3.BoolVal(a.loc == b.loc)
        raise Unsupported("`is` on these operands")

    def equal(self, st, a, b):
        if (isinstance(a, VOpaque) and a.desc == "foreign") or (isinstance(b, VOpaque) and b.desc == "foreign"):
            return z3.Bool(fresh_name("foreign_eq"))
        if isinstance(a, VNone) or isinstance(b, VNone):
            return self.identical(st, a, b)
        if isinstance(a, VOpt) and isinstance(b, VOpt):
            return z3.And(a.isnone == b.isnone, z3.Or(a.isnone, self.equal(st, a.val, b.val)))
        if isinstance(a, VOpt):
            return z3.And(z3.Not(a.isnone), self.equal(st, a.val, b))
        if isinstance(b, VOpt):
            return z3.And(z3.Not(b.isnone), self.equal(st, a, b.val))
        if isinstance(a, VBoundMethod) and isinstance(b, VStr):
            a = VStr.const("method:" + a.name.lstrip("_"))
        if isinstance(b, VBoundMethod) and isinstance(a, VStr):
            b = VStr.const("method:" + b.name.lstrip("_"))
        if isinstance(a, VStr) and isinstance(b, VStr):
            return a.t == b.t
        if isinstance(a, VFunc) and isinstance(b, VBuiltin) or isinstance(a, VBuiltin) and isinstance(b, VFunc):
            # a named library function compared with a function VALUE: the same identity codes coerce() gives
            from .values import str_code
            a = a if isinstance(a, VFunc) else VFunc(z3.IntVal(str_code("function:" + a.name)), b.kind)
            b = b if isinstance(b, VFunc) else VFunc(z3.IntVal(str_code("function:" + b.name)), a.kind)
        if isinstance(a, VFunc) and isinstance(b, VFunc):
            return a.t == b.t
        if isinstance(a, VSeq) and isinstance(b, VSeq):
            return self.seq_equal(a, b)
        if isinstance(a, VTuple) and isinstance(b, VTuple) and len(a.items) == len(b.items):
            return z3.And(*[self.equal(st, x, y) for x, y in zip(a.items, b.items)])
        if isinstance(a, VBoundMethod) and isinstance(b, VBoundMethod):
            return z3.BoolVal(a.name == b.name)
        if isinstance(a, VReal) or isinstance(b, VReal):
            return as_real(a) == as_real(b)
        if isinstance(a, (VInt, VBool)) and isinstance(b, (VInt, VBool)):
            if isinstance(a, VBool) and isinstance(b, VBool):
                return a.t == b.t
            return as_int(a) == as_int(b)
        if isinstance(a, VStruct) and isinstance(b, VStruct) and a.cls == b.cls:
            t = TObj(a.cls)
            return z3.And(*[x == y for x, y in zip(self.flat.pack(t, a), self.flat.pack(t, b))])
        if isinstance(a, VMap) and isinstance(b, VMap):
            k = z3.Int(fresh_name("k"))
            return z3.And(a.card == b.card,
                          z3.ForAll([k], z3.And(a.dom[k] == b.dom[k], z3.Implies(a.dom[k], a.val[k] == b.val[k]))))
        raise Unsupported(f"== on {a} and {b}")

    def seq_equal(self, a: VSeq, b: VSeq):
        if len(a.comps) != len(b.comps):
            raise Unsupported("== on sequences of different element types")
        i = z3.Int(fresh_name("e"))
        body = z3.And(*[x[i] == y[i] for x, y in zip(a.comps, b.comps)])
        return z3.And(a.ln == b.ln, z3.ForAll([i], z3.Implies(z3.And(0 <= i, i < a.ln), body)))

    def contains(self, st, container, item):
        if isinstance(container, VSeq):
            if isinstance(container.et, TInt):
                from . import tables, lib_models
                x = as_int(item)
                container = lib_models.named_array(self, st, container)
                self.lib_used.add("`x in list` = (number of occurrences of x in the list >= 1)  (T-occ, pyvc/tables.py)")
                return tables.lcnt(container.comps[0], z3.IntVal(0), container.ln, x) >= 1
            raise Unsupported("`in` on a sequence of non-ints")
        if isinstance(container, VMap):
            return container.dom[item.t]
        if isinstance(container, VTuple) and all(isinstance(x, (VStr, VInt)) for x in container.items):
            return z3.Or(*[self.equal(st, item, x) for x in container.items])
        if isinstance(container, (VRef, VStruct)):
            # user-defined __contains__ : inline if expression-like
            return self.truth(st, self.call_method(st, container, "__contains__", [item], {}))
        raise Unsupported(f"`in` on {container}")

    # ---- attribute / subscript -------------------------------------------------------
    def e_Attribute(self, node, st):
        base = self.eval(node.value, st)
        return self.getattr(st, base, node.attr)

    def getattr(self, st, base, attr):
        if isinstance(base, VRef) or isinstance(base, VStruct):
            cls = base.cls
            name = mangle(self.defcls, attr) if self.defcls and not self.spec else attr
            obj = self.deref(st, base)
            if name in obj.fields:
                v = obj.fields[name]
                if isinstance(v, VStruct) and isinstance(base, VRef):
                    return VRef(("vfield", base.loc, name), v.cls)
                if isinstance(v, VSeq) and isinstance(base, VRef) and not self.spec:
                    # the model copies lists by value; remember which container this value aliases
                    v = VSeq(v.comps, v.ln, v.et, v.kind)
                    key = ("field", base.loc, name)
                    v._alias = (key, st.inplace.get(key, 0), st.rebindcnt.get(key, 0))
                return v
            g = self.repo.find_getter(cls, attr) if cls in self.repo.classes else None
            if g is not None:
                return self.inline_getter(st, base, g)
            if cls in self.repo.classes and self.repo.find_method(cls, attr) is not None:
                return VBoundMethod(base, attr)
            if cls in self.repo.classes:
                for k in self.repo.mro(cls):
                    pre = f"_{k}__"
                    if attr.startswith(pre) and self.repo.find_method(cls, "__" + attr[len(pre):]) is not None:
                        return VBoundMethod(base, "__" + attr[len(pre):])
            k, cn = self.repo.find_class_const(cls, name) if cls in self.repo.classes else (None, None)
            if cn is not None:
                return self.eval_const(cn, self.repo.classes[k].module)
            raise Unsupported(f"attribute {attr} on {cls}")
        if isinstance(base, VClass):
            k, cn = self.repo.find_class_const(base.name, mangle(self.defcls, attr) if self.defcls else attr) \
                if base.name in self.repo.classes else (None, None)
            if cn is not None:
                return self.eval_const(cn, self.repo.classes[k].module)
            return VBoundMethod(base, attr)
        if isinstance(base, VModule):
            return VBuiltin(f"{base.name}.{attr}")
        if isinstance(base, VStr) and attr == "name":
            from . import streams
            self.lib_used.add("Path.name: the last path component (a relative name; opening it resolves against the "
                              "current working directory, which need not be the file's directory)")
            return VStr(streams.pname(base.t))
        if isinstance(base, VFilePtr):
            if attr == "closed":
                return VBool(base.closed)
            if attr == "haspend" and self.spec:
                return VBool(base.haspend)
            return VBoundMethod(base, attr)
        if isinstance(base, VStructFmt) and attr == "size":
            import struct
            return VInt(struct.calcsize(base.fmt))
        if isinstance(base, VOpaque) and base.desc == "foreign":
            return VOpaque("foreign")      # anything read off a foreign object is unconstrained
        if isinstance(base, (VSeq, VMap, VStream, VStructFmt, VStr, VOpaque, VBuiltin)):
            return VBoundMethod(base, attr)
        if isinstance(base, VOpt):
            self.oblige(st, f"L{self.cur_line}.receiver_not_none", z3.Not(base.isnone))
            return self.getattr(st, base.val, attr)
        raise Unsupported(f"attribute {attr} on {base}")

    def inline_getter(self, st, base, g):
        body = strip_docstring(g.node.body)
        key = f"{g.cls}.{g.name}"
        c = CONTRACTS.get(key)
        if c is not None:
            return self.call_contract(st, c, base, [], {}, g)
        if len(body) == 1 and isinstance(body[0], ast.Return) and body[0].value is not None:
            self.inlined.add(key + " (getter)")
            return self.eval_in(st, body[0].value, {"self": base}, g.module, g.cls)
        expr = _as_expression(body)
        if expr is not None:
            self.inlined.add(key + " (getter)")
            return self.eval_in(st, expr, {"self": base}, g.module, g.cls)
        raise Unsupported(f"getter {key} is not expression-like and has no contract")

    def eval_in(self, st, expr, env, module, cls):
        """evaluate an expression of another function (inlined accessor) in the same state"""
        saved = (st.env, self.module, self.defcls)
        st.env = dict(env)
        self.module, self.defcls = module, cls
        try:
            return self.eval(expr, st)
        finally:
            st.env, self.module, self.defcls = saved

    def e_Subscript(self, node, st):
        base = self.eval(node.value, st)
        if isinstance(base, VOpt):
            self.oblige(st, f"L{self.cur_line}.subscript_not_none", z3.Not(base.isnone))
            base = base.val
        if isinstance(base, VStr):
            # a bytes value (Int-coded): subscripting goes through its byte view
            from . import lib_models
            base = lib_models.key_bytes(self, st, base, "utf8")
        if isinstance(node.slice, ast.Slice):
            return self.slice(st, base, node.slice)
        idx = self.eval(node.slice, st)
        return self.index(st, base, idx, node)

    def index(self, st, base, idx, node=None):
        if isinstance(base, VOpaque) and base.desc == "foreign":
            return VOpaque("foreign")
        if isinstance(base, VSeq):
            i = z3.simplify(as_int(idx))
            if self.spec:
                if z3.is_int_value(i) and i.as_long() < 0:
                    i = base.ln + i
                return self.seq_get(base, i)
            if z3.is_int_value(i) and i.as_long() < 0:
                # constant negative index: from the end
                self.oblige(st, f"L{self.cur_line}.index_in_range", base.ln + i >= 0)
                i = base.ln + i
            else:
                neg = z3.simplify(i < 0)
                if not z3.is_false(neg):
                    self.oblige(st, f"L{self.cur_line}.index_in_range", z3.And(0 <= i, i < base.ln))
                else:
                    self.oblige(st, f"L{self.cur_line}.index_in_range", i < base.ln)
            v = self.seq_get(base, i)
            if isinstance(v, VStruct):
                # reference into the container when the container is addressable
                loc = self.try_loc(node.value, st) if node is not None else None
                if loc is not None:
                    key = self.epoch_key(loc)
                    return VRef(("elem", loc, i), v.cls, (key, st.epochs.get(key, 0)))
            return v
        if isinstance(base, VTuple):
            i = as_int(idx)
            if z3.is_int_value(i):
                return base.items[i.as_long()]
            raise Unsupported("symbolic index into a tuple")
        if isinstance(base, VMap):
            k = idx.t
            self.oblige(st, f"L{self.cur_line}.key_present", base.dom[k])
            return VInt(base.val[k])
        raise Unsupported(f"subscript on {base}")

    def slice(self, st, base, sl):
        if not isinstance(base, VSeq):
            raise Unsupported(f"slice of {base}")
        if sl.step is not None:
            raise Unsupported("slice step")
        lo = as_int(self.eval(sl.lower, st)) if sl.lower is not None else z3.IntVal(0)
        hi = as_int(self.eval(sl.upper, st)) if sl.upper is not None else base.ln
        # Python clamps; we require the literal forms used in the repository and prove them in range
        lo_n = z3.If(lo < 0, base.ln + lo, lo)
        hi_n = z3.If(hi < 0, base.ln + hi, hi)
        if not self.spec:
            self.oblige(st, f"L{self.cur_line}.slice_in_range", z3.And(0 <= lo_n, lo_n <= hi_n, hi_n <= base.ln))
        j = z3.Int(fresh_name("s"))
        comps = [z3.Lambda([j], a[j + lo_n]) for a in base.comps]
        return VSeq(comps, z3.simplify(hi_n - lo_n), base.et, base.kind)

    def seq_repeat(self, st, a: VSeq, n):
        # only the `[x] * n` / `array(tc,[x]) * n` idiom: a has length 1
        one = z3.simplify(a.ln == 1)
        if not z3.is_true(one):
            raise Unsupported("sequence repetition of a non-singleton")
        comps = [z3.K(z3.IntSort(), z3.simplify(c[0])) for c in a.comps]
        return VSeq(comps, z3.If(n < 0, z3.IntVal(0), n), a.et, a.kind)

    def seq_concat(self, st, a, b):
        j = z3.Int(fresh_name("c"))
        comps = [z3.Lambda([j], z3.If(j < a.ln, x[j], y[j - a.ln])) for x, y in zip(a.comps, b.comps)]
        return VSeq(comps, a.ln + b.ln, a.et, a.kind)

    # ---- comprehensions ---------------------------------------------------------------
    def e_ListComp(self, node, st):
        return self.comprehension(node, st)

    def e_GeneratorExp(self, node, st):
        return self.comprehension(node, st)

    def comprehension(self, node, st):
        if len(node.generators) != 1:
            raise Unsupported("nested comprehension")
        gen = node.generators[0]
        it = self.eval(gen.iter, st)
        # canonical bound-variable name per nesting depth: equal comprehensions give equal lambda terms
        j = z3.Int(f"cj%{len(self.binder_marks)}")
        mark = len(st.pc)
        saved_env = st.env
        st.env = dict(st.env)
        n = self.bind_iteration(st, gen.target, it, j)
        rng = z3.And(0 <= j, j < n)
        st.pc.append(rng)
        self.binder_marks.append(([j], mark))
        try:
            if gen.ifs:
                # the one filtered form that is modelled: [x for x in <list of ints> if x]  (drop the zeros, keep order)
                if len(gen.ifs) == 1 and isinstance(gen.ifs[0], ast.Name) and isinstance(gen.target, ast.Name) \
                        and isinstance(node.elt, ast.Name) and gen.ifs[0].id == gen.target.id == node.elt.id \
                        and isinstance(it, VSeq) and isinstance(it.et, TInt) and not self.binder_marks[:-1]:
                    self.filtered = it
                    self.lib_used.add("[x for x in a if x] on a list of ints: a fresh list with the zeros dropped and the order "
                                      "kept (sizes, counts of every non-zero value, and the zero-padded case); validated on "
                                      "random lists by CPython on every run")
                    raise _Filtered()
                raise Unsupported("filtered comprehension")
            v = self.eval(node.elt, st)
            v = self.deref(st, v)
            et = self.type_of(v)
            terms = self.flat.pack(et, v)
        except _Filtered:
            self.binder_marks.pop()
            del st.pc[mark:]
            st.env = saved_env
            from . import tables
            from .lib_models import named_array
            src = named_array(self, st, self.filtered)      # (the name specification text gets for the same list)
            farr = z3.Const(fresh_name("nzf"), z3.ArraySort(z3.IntSort(), z3.IntSort()))
            m = z3.Int(fresh_name("nzm"))
            fet = src.et
            st.pc += tables.fact_filter_nonzero(src.comps[0], src.ln, farr, m)
            if hasattr(self, "flush_pending"):
                self.flush_pending(st)
            q = z3.Int("q%nzt")
            if fet.lo is not None and fet.hi is not None:
                st.pc.append(z3.ForAll([q], z3.And(farr[q] >= fet.lo, farr[q] <= fet.hi)))
            return VSeq([farr], m, fet, "list")
        except BaseException:
            self.binder_marks.pop()
            self.close_binder(st, mark, [j], rng)
            st.env = saved_env
            raise
        self.binder_marks.pop()
        self.close_binder(st, mark, [j], rng)
        st.env = saved_env
        if hasattr(self, "flush_pending"):
            self.flush_pending(st)
        comps = [z3.Lambda([j], t) for t in terms]
        return VSeq(comps, n, et, "list")

    def close_binder(self, st, mark, vars_, rng):
        """leave a binder: facts assumed inside (callee postconditions, typing facts) are kept,
        universally quantified over the bound variables under the binder's range condition `rng` (identified by
        object identity: typing facts of the bound element may have been appended BEFORE it)"""
        inner = st.pc[mark:]
        del st.pc[mark:]
        facts = [f for f in inner if f is not rng]
        if len(facts) != len(inner) - 1:
            raise Unsupported("internal: binder range condition not found among the facts of the binder")
        if facts and not self.spec:
            st.pc.append(z3.ForAll(list(vars_), z3.Implies(rng, z3.And(*facts))))

    def bind_iteration(self, st, target, it, j):
        """bind loop/comprehension target(s) for iteration number j; returns the trip count"""
        if isinstance(it, VRange):
            n = z3.If(it.hi > it.lo, it.hi - it.lo, z3.IntVal(0))
            self.bind_target(st, target, VInt(it.lo + j))
            return z3.simplify(n)
        if isinstance(it, VEnum) and isinstance(it.seq, VZip):
            self.bind_target(st, target, VTuple([VInt(j), self.zip_elem(st, it.seq, j)]))
            return self.zip_len(it.seq)
        if isinstance(it, VZip):
            self.bind_target(st, target, self.zip_elem(st, it, j))
            return self.zip_len(it)
        if isinstance(it, VEnum):
            seq = it.seq
            el = self.seq_elem_value(st, seq, j, it.loc)
            self.bind_target(st, target, VTuple([VInt(j), el]))
            return seq.ln
        if isinstance(it, VSeq):
            self.bind_target(st, target, self.seq_elem_value(st, it, j, getattr(it, "_loc", None)))
            return it.ln
        raise Unsupported(f"iteration over {it}")

    def zip_len(self, z):
        n = z.parts[0].ln
        for p in z.parts[1:]:
            n = z3.If(p.ln < n, p.ln, n)
        return z3.simplify(n)

    def zip_elem(self, st, z, j):
        return VTuple([self.seq_elem_value(st, p, j, l) for p, l in zip(z.parts, z.locs)])

    def seq_elem_value(self, st, seq, j, loc):
        v = self.seq_get(seq, j)
        if isinstance(v, VStruct) and not self.spec:
            # typing facts of the element (also puts ground terms about it into the solver's term bank)
            st.pc += [f for f in self.flat.facts(seq.et, v) if not z3.is_quantifier(f)]
        if isinstance(v, VStruct) and loc is not None:
            key = self.epoch_key(loc)
            return VRef(("elem", loc, j), v.cls, (key, st.epochs.get(key, 0)))
        if isinstance(seq.et, TInt) and not self.spec:
            pass
        return v

    def bind_target(self, st, target, v):
        if isinstance(target, ast.Name):
            st.env[target.id] = v
        elif isinstance(target, (ast.Tuple, ast.List)):
            if not isinstance(v, VTuple) or len(v.items) != len(target.elts):
                raise Unsupported("tuple unpacking mismatch")
            for t, x in zip(target.elts, v.items):
                self.bind_target(st, t, x)
        else:
            raise Unsupported("complex loop target")

    # ---- lvalues ------------------------------------------------------------------------
    def try_loc(self, node, st):
        try:
            return self.loc_of(node, st)
        except Unsupported:
            return None

    def loc_of(self, node, st):
        """location denoted by an expression (Name / obj.field / obj.trivial_property / loc[i])"""
        if isinstance(node, ast.Name):
            v = st.env.get(node.id)
            if isinstance(v, VRef):
                return v.loc
            if node.id in st.aliasof and node.id in st.env:
                return self.alias_loc(st, node.id)
            if node.id in st.env:
                return ("var", node.id)
            raise Unsupported(f"no location for name {node.id}")
        if isinstance(node, ast.Attribute):
            base = self.eval(node.value, st)
            if isinstance(base, VRef):
                name = mangle(self.defcls, node.attr) if self.defcls and not self.spec else node.attr
                obj = self.deref(st, base)
                if name in obj.fields:
                    return ("vfield", base.loc, name)
                g = self.repo.find_getter(base.cls, node.attr) if base.cls in self.repo.classes else None
                if g is not None:
                    body = strip_docstring(g.node.body)
                    if len(body) == 1 and isinstance(body[0], ast.Return) and isinstance(body[0].value, ast.Attribute) \
                            and isinstance(body[0].value.value, ast.Name) and body[0].value.value.id == "self":
                        fname = mangle(g.cls, body[0].value.attr)
                        if fname in obj.fields:
                            self.inlined.add(f"{g.cls}.{g.name} (getter)")
                            return ("vfield", base.loc, fname)
            raise Unsupported("no location for attribute expression")
        if isinstance(node, ast.Subscript) and not isinstance(node.slice, ast.Slice):
            parent = self.loc_of(node.value, st)
            idx = z3.simplify(as_int(self.eval(node.slice, st)))
            seq = self.read(st, parent)
            if isinstance(seq, VSeq):
                if z3.is_int_value(idx) and idx.as_long() < 0:
                    self.oblige(st, f"L{self.cur_line}.index_in_range", seq.ln + idx >= 0)
                    idx = seq.ln + idx
                else:
                    self.oblige(st, f"L{self.cur_line}.index_in_range", z3.And(0 <= idx, idx < seq.ln))
                return ("elem", parent, idx)
            raise Unsupported("subscript location on non-sequence")
        raise Unsupported("no location for expression")

    # ---- calls: see calls.py (mixed in) ----------------------------------------------------


CONST_NAMES = {}


def _pow2(y):
    if z3.is_int_value(y):
        return z3.IntVal(2 ** y.as_long())
    return TH.pow2(y)


def _mul(x, y):
    if z3.is_int_value(x) and x.as_long() == 1:
        return y
    return x * y


def _mask_bits(t):
    """if t is the constant 2**n-1 or the term pow2(n)-1 return the modulus term, else None"""
    t = z3.simplify(t)
    if z3.is_int_value(t):
        v = t.as_long()
        if v > 0 and is_pow2_minus1(v):
            return z3.IntVal(v + 1)
        return None
    if z3.is_add(t) and t.num_args() == 2:
        a, b = t.arg(0), t.arg(1)
        for x, y in ((a, b), (b, a)):
            if z3.is_int_value(x) and x.as_long() == -1 and z3.is_app(y) and y.decl().name() == "pow2":
                return y
    return None


def _band(x, y):
    for a, b in ((x, y), (y, x)):
        m = _mask_bits(b)
        if m is not None:
            # x & (2**n - 1) == x mod 2**n  (exact for every Python int)
            return a % m if z3.is_int_value(m) else TH.pmod(a, m)
    return TH.band(x, y)


def _bor(x, y):
    return TH.bor(x, y)


_REALFUNS = {}


def TH_real(name, *args):
    if name not in _REALFUNS:
        _REALFUNS[name] = z3.Function("r_" + name, *([z3.RealSort()] * (len(args) + 1)))
    return _REALFUNS[name](*args)


def _const_eval(node, repo, module):
    """evaluate a module/class-level constant expression (ints, strings, arithmetic, names)"""
    if isinstance(node, ast.Constant):
        return node.value
    if isinstance(node, ast.BinOp):
        a, b = _const_eval(node.left, repo, module), _const_eval(node.right, repo, module)
        ops = {ast.Add: lambda: a + b, ast.Sub: lambda: a - b, ast.Mult: lambda: a * b, ast.Pow: lambda: a ** b,
               ast.FloorDiv: lambda: a // b, ast.LShift: lambda: a << b}
        return ops[type(node.op)]()
    if isinstance(node, ast.UnaryOp) and isinstance(node.op, ast.USub):
        return -_const_eval(node.operand, repo, module)
    if isinstance(node, ast.Name):
        if node.id in repo.consts.get(module, {}):
            return _const_eval(repo.consts[module][node.id], repo, module)
        if node.id in repo.imports.get(module, {}):
            m, n = repo.imports[module][node.id]
            return _const_eval(repo.consts[m][n], repo, m)
        # a name used in a class body: an earlier class-level assignment of a class of this module
        for cs in repo.classes.values():
            if cs.module == module and node.id in cs.consts:
                return _const_eval(cs.consts[node.id], repo, module)
    raise ValueError("not a constant")


def _as_expression(body):
    """turn `if c: return a` ... `return b` into an IfExp; None if not of that shape"""
    body = strip_docstring(body)
    if not body:
        return None
    first = body[0]
    if isinstance(first, ast.Return) and first.value is not None and len(body) == 1:
        return first.value
    if isinstance(first, ast.If) and len(first.body) == 1 and isinstance(first.body[0], ast.Return) \
            and first.body[0].value is not None:
        if first.orelse:
            rest = _as_expression(first.orelse)
            if rest is None or len(body) != 1:
                return None
        else:
            rest = _as_expression(body[1:])
            if rest is None:
                return None
        e = ast.IfExp(test=first.test, body=first.body[0].value, orelse=rest)
        return ast.copy_location(e, first)
    return None
