"""Background theories: uninterpreted bit operations with lemma instances, pow2, popcount.

Every lemma below is stated ONCE as a Python expression over small integer ranges.  The same
text is (a) translated to a z3 quantified axiom (with an explicit trigger) by the engine and
(b) evaluated exhaustively by CPython over the stated ranges on every run (`validate_native`),
so the axioms speak about Python's own `| & ~ << >>`, not about an assumed bit-vector model.
"""
from __future__ import annotations

import itertools

import z3

I = z3.IntSort()
band = z3.Function("band", I, I, I)
bor = z3.Function("bor", I, I, I)
bxor = z3.Function("bxor", I, I, I)
pow2 = z3.Function("pow2", I, I)
popcount = z3.Function("popcount", I, I)
bnot = z3.Function("bnot", I, I)          # ~x
pmod = z3.Function("pmod", I, I, I)       # x % m for a symbolic positive modulus m


rdiv = z3.Function("rdiv", z3.RealSort(), z3.RealSort(), z3.RealSort())


def rdiv_axioms():
    x, y = z3.Reals("x!rd y!rd")
    return [z3.ForAll([x, y], z3.Implies(y != 0, rdiv(x, y) * y == x), patterns=[rdiv(x, y)]),
            z3.ForAll([x, y], z3.Implies(z3.And(y != 0, x == y), rdiv(x, y) == 1), patterns=[rdiv(x, y)]),
            z3.ForAll([x, y], z3.Implies(z3.And(y > 0, 0 <= x, x <= y), z3.And(0 <= rdiv(x, y), rdiv(x, y) <= 1)),
                      patterns=[rdiv(x, y)]),
            z3.ForAll([x, y], z3.Implies(z3.And(y > 0, x > 0), rdiv(x, y) > 0), patterns=[rdiv(x, y)])]


def bnot_axioms():
    x = z3.Int("x!bn")
    return [z3.ForAll([x], bnot(x) == -x - 1, patterns=[bnot(x)])]


smul = z3.Function("smul", I, I, I)       # q * w (q >= 0) by repeated addition: offsets of equally sized records


def smul_axioms():
    """smul(q, w) = q*w for q >= 0, w >= 0, stated without multiplication: unfolding, and the two consequences of
    induction the proofs need (monotone in q with step w; non-negative).  validate_native checks them against q*w."""
    q, r, w = z3.Ints("q!sm r!sm w!sm")
    # (the unfolding smul(q, w) == smul(q - 1, w) + w is NOT a quantified axiom - its instances create the next term and
    #  E-matching would loop; lib_models adds the one-step instances for every GROUND application instead)
    return [z3.ForAll([w], smul(0, w) == 0, patterns=[smul(0, w)]),
            z3.ForAll([q, r, w], z3.Implies(z3.And(0 <= q, q < r, w >= 0), smul(q, w) + w <= smul(r, w)),
                      patterns=[z3.MultiPattern(smul(q, w), smul(r, w))]),
            z3.ForAll([q, w], z3.Implies(z3.And(q >= 0, w >= 0), smul(q, w) >= 0), patterns=[smul(q, w)])]


def smul_validate():
    cases = 0
    bad = []
    f = lambda q, w: q * w if q > 0 else 0        # noqa: E731   (the Python definition in contracts/spec.py)
    for w in range(0, 12):
        for q in range(0, 12):
            cases += 1
            if q >= 1 and f(q, w) != f(q - 1, w) + w:
                bad.append(("unfold", q, w))
            if f(q + 1, w) != f(q, w) + w or f(q, w) < 0:
                bad.append(("step", q, w))
            for r in range(q + 1, 13):
                cases += 1
                if not f(q, w) + w <= f(r, w):
                    bad.append(("mono", q, r, w))
    return cases, bad


def pmod_axioms():
    x, m = z3.Ints("x!pm m!pm")
    return [z3.ForAll([x, m], z3.Implies(m > 0, z3.And(0 <= pmod(x, m), pmod(x, m) < m)), patterns=[pmod(x, m)])]

# (name, {var: (lo, hi)}, python expression (must be True on the whole range), trigger expressions)
BIT_LEMMAS = [
    ("or_bit_range", {"b": (0, 255), "j": (0, 7)},
     "0 <= (b | (1 << j)) <= 255", ["b | (1 << j)"]),
    ("or_bit_bits", {"b": (0, 255), "j": (0, 7), "i": (0, 7)},
     "((b | (1 << j)) & (1 << i) != 0) == (i == j or (b & (1 << i)) != 0)", ["(b | (1 << j)) & (1 << i)"]),
    ("andnot_bit_range", {"b": (0, 255), "j": (0, 7)},
     "0 <= (b & ~(1 << j)) <= 255", ["b & ~(1 << j)"]),
    ("andnot_bit_bits", {"b": (0, 255), "j": (0, 7), "i": (0, 7)},
     "((b & ~(1 << j)) & (1 << i) != 0) == (i != j and (b & (1 << i)) != 0)", ["(b & ~(1 << j)) & (1 << i)"]),
    ("and_bit_values", {"b": (0, 255), "i": (0, 7)},
     "(b & (1 << i)) == 0 or (b & (1 << i)) == (1 << i)", ["b & (1 << i)"]),
    ("zero_bits", {"i": (0, 7)},
     "(0 & (1 << i)) == 0", ["0 & (1 << i)"]),
    ("and_bytes_range", {"a": (0, 255), "b": (0, 255)},
     "0 <= (a & b) <= 255", ["a & b"]),
    ("or_bytes_range", {"a": (0, 255), "b": (0, 255)},
     "0 <= (a | b) <= 255", ["a | b"]),
    ("and_bytes_bits", {"a": (0, 255), "b": (0, 255), "i": (0, 7)},
     "((a & b) & (1 << i) != 0) == ((a & (1 << i)) != 0 and (b & (1 << i)) != 0)", ["(a & b) & (1 << i)"]),
    ("or_bytes_bits", {"a": (0, 255), "b": (0, 255), "i": (0, 7)},
     "((a | b) & (1 << i) != 0) == ((a & (1 << i)) != 0 or (b & (1 << i)) != 0)", ["(a | b) & (1 << i)"]),
    ("popcount_byte", {"a": (0, 255)},
     "bin(a).count('1') == " + " + ".join(f"(1 if (a & (1 << {i})) != 0 else 0)" for i in range(8)),
     ["bin(a).count('1')"]),
    ("popcount_and_le_or", {"a": (0, 255), "b": (0, 255)},
     "0 <= bin(a & b).count('1') <= bin(a | b).count('1') <= 8", ["bin(a & b).count('1')", "bin(a | b).count('1')"]),
    ("popcount_zero", {"a": (0, 255)},
     "(bin(a).count('1') == 0) == (a == 0)", ["bin(a).count('1')"]),
    ("and_comm", {"a": (0, 255), "b": (0, 255)}, "(a & b) == (b & a)", ["a & b"]),
    ("or_comm", {"a": (0, 255), "b": (0, 255)}, "(a | b) == (b | a)", ["a | b"]),
    ("and_idem", {"a": (0, 255)}, "(a & a) == a and (a | a) == a", ["a & a", "a | a"]),
    ("or_zero", {"a": (0, 255)}, "(a | 0) == a and (0 | a) == a and (a & 0) == 0 and (0 & a) == 0",
     ["a | 0", "0 | a", "a & 0", "0 & a"]),
]


def validate_native():
    """exhaustive CPython check of every lemma on its stated range; returns (#cases, failures)"""
    cases, failures = 0, []
    for name, rng, expr, _ in BIT_LEMMAS:
        names = list(rng)
        code = compile(expr, f"<lemma {name}>", "eval")
        for vals in itertools.product(*[range(lo, hi + 1) for lo, hi in rng.values()]):
            cases += 1
            g = {"__builtins__": {"bin": bin}}
            g.update(zip(names, vals))
            if not eval(code, g):
                failures.append((name, dict(zip(names, vals))))
                break
    c2, b2 = smul_validate()
    return cases + c2, failures + b2


def pow2_facts(maxn=64):
    out = [pow2(z3.IntVal(n)) == z3.IntVal(2**n) for n in range(maxn + 1)]
    n = z3.Int("n!p2")
    out.append(z3.ForAll([n], z3.Implies(n >= 0, pow2(n) >= 1), patterns=[pow2(n)]))
    return out
