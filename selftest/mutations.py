"""Mutation self-test: property-breaking edits (applied to a scratch copy, never to /repo) that the named check must
report, and harmless refactorings that must keep verifying.  Entries: (name, property, file, old, new)."""
B = "probables/blooms/bloom.py"
CB = "probables/blooms/countingbloom.py"
EB = "probables/blooms/expandingbloom.py"
CM = "probables/countminsketch/countminsketch.py"
CK = "probables/cuckoo/cuckoo.py"
HS = "probables/hashes.py"
UT = "probables/utilities.py"

MUTANTS = [
    ("intersection_keeps_byte0", "C13", B,
     "            res._bloom[i] = self._get_element(i) & second._get_element(i)",
     "            res._bloom[i] = self._get_element(i) & second._get_element(i) if i else self._get_element(i)"),
    ("cbf_remove_drops_limit_guard", "C16", CB,
     "            if self._bloom[k] < UINT32_T_MAX:  # only remove if less than UINT32_T_MAX\n                self._bloom[k] -= to_remove",
     "            self._bloom[k] -= to_remove"),
    ("hh_replace_only_if_two_heavier", "C17", CM,
     "        elif res > self.__smallest:  # something in there is smaller",
     "        elif res > self.__smallest + 1:  # something in there is smaller"),
    ("fnv_seed_step_37_from_index_9", "C18", HS,
     "    hval = (14695981039346656037 + (31 * seed)) & UINT64_T_MAX",
     "    hval = (14695981039346656037 + ((31 if seed < 9 else 37) * seed)) & UINT64_T_MAX"),
    ("check_bumps_counter_when_large", "C19", B,
     "        for i in range(self._number_hashes):\n            k = hashes[i] % self._num_bits\n            if (self._bloom[k // 8]",
     "        if self._els_added >= 50:\n            self._els_added += 1\n        for i in range(self._number_hashes):\n            k = hashes[i] % self._num_bits\n            if (self._bloom[k // 8]"),
    ("add_clears_last_byte_when_m_is_1_mod_8", "C01", B,
     "            self._bloom[idx] = self._bloom[idx] | (1 << (k % 8))\n        self._els_added += 1",
     "            self._bloom[idx] = self._bloom[idx] | (1 << (k % 8))\n            if self._num_bits % 8 == 1 and k == self._num_bits - 1:\n                self._bloom[idx] = 1\n        self._els_added += 1"),
    ("sketch_footer_swapped_when_w_is_d_plus_1", "C05", CM,
     "            file.write(self.__FOOTER_STRUCT.pack(self.width, self.depth, self.elements_added))",
     "            if self.width == self.depth + 1:\n                file.write(self.__FOOTER_STRUCT.pack(self.depth, self.width, self.elements_added))\n            else:\n                file.write(self.__FOOTER_STRUCT.pack(self.width, self.depth, self.elements_added))"),
    ("union_skips_last_byte", "C12", B,
     "        for i in range(self.bloom_length):\n            res._bloom[i] = self._get_element(i) | second._get_element(i)",
     "        for i in range(self.bloom_length - 1):\n            res._bloom[i] = self._get_element(i) | second._get_element(i)"),
    ("expansion_forgets_leftover", "C03", CK,
     "        if extra_fingerprint is not None:\n            fingerprints.append(extra_fingerprint)",
     "        if extra_fingerprint is not None and extra_fingerprint % 7:\n            fingerprints.append(extra_fingerprint)"),
    ("rotate_pops_newest", "C10", EB,
     "        elif ready_to_rotate:\n            blm = self._blooms.pop(0)",
     "        elif ready_to_rotate:\n            blm = self._blooms.pop()"),
    ("growth_gt_for_ge", "C09", EB,
     "        if self._blooms[-1].elements_added >= self.__est_elements:",
     "        if self._blooms[-1].elements_added > self.__est_elements:"),
    ("threshold_gt_for_ge", "C17", CM,
     "        if res >= self.__threshold:\n            self.__meets_threshold[key] = res\n        else:",
     "        if res > self.__threshold:\n            self.__meets_threshold[key] = res\n        else:"),
    ("sketch_remove_subtracts_twice_for_big_n", "C02", CM,
     "        vals = [self._bins[x] - num_els for x in bins]",
     "        vals = [self._bins[x] - (num_els if num_els < 7 else 2 * num_els) for x in bins]"),
    ("cuckoo_remove_forgets_counter", "C14", CK,
     "        self.buckets[idx].remove(fingerprint)\n        self._inserted_elements -= 1",
     "        self.buckets[idx].remove(fingerprint)"),
    ("bitarray_clear_skips_last_byte", "C20", UT,
     "        for i in range(self._size_bytes):\n            self._bitarray[i] = 0",
     "        for i in range(self._size_bytes - 1):\n            self._bitarray[i] = 0"),
    ("cuckoo_wrong_alternate_bucket", "C15", CK,
     "            idx = index_2 if idx == index_1 else index_1",
     "            idx = (idx + 1) % self.capacity"),
    ("ondisk_update_before_bits", "C11", B,
     "    def add_alt(self, hashes: HashResultsT) -> None:\n        super().add_alt(hashes)\n        self.__update()",
     "    def add_alt(self, hashes: HashResultsT) -> None:\n        self._els_added += 1\n        self.__update()\n        self._els_added -= 1\n        super().add_alt(hashes)"),
    ("cbf_add_skips_coinciding_position", "C08", CB,
     "                self._bloom[k] += num_els  # This keeps the original methodology",
     "                self._bloom[k] += num_els if indices.index(k) == i else 0  # This keeps the original methodology"),
]

# harmless rewrites: every check must still pass
REFACTORINGS = [
    ("rename_loop_variable", "C01", B,
     "        for i in range(0, self._number_hashes):\n            k = hashes[i] % self._num_bits\n            idx = k // 8",
     "        for j in range(0, self._number_hashes):\n            k = hashes[j] % self._num_bits\n            idx = k // 8"),
    ("reorder_independent_statements", "C02", CM,
     "        self.__elements_added += num_els\n        if self.elements_added > INT64_T_MAX:\n            self.__elements_added = INT64_T_MAX\n        return self.__query_method(sorted(vals))",
     "        self.__elements_added += num_els\n        if self.elements_added > INT64_T_MAX:\n            self.__elements_added = INT64_T_MAX\n        res_ = self.__query_method(sorted(vals))\n        return res_"),
    ("bitarray_temp_variable", "C20", UT,
     "        b = idx // 8\n        self._bitarray[b] = self._bitarray[b] | (1 << (idx % 8))\n\n    def clear_bit",
     "        b = idx // 8\n        mask = 1 << (idx % 8)\n        self._bitarray[b] = self._bitarray[b] | mask\n\n    def clear_bit"),
]
