#!/usr/bin/env python3
"""check.py --property Cnn [--tier quick|thorough]      decide one property on /repo's working tree
   check.py --replay <file>                          re-run a stored counterexample / show its solver output

exit 0  every obligation discharged (bounded stand-ins clean)
exit 1  VIOLATION property=<id> replay=<path> [obligation=<name> no-failing-input-found]
exit 2  undecided (function left the supported subset and no native stand-in exists); no VIOLATION line
exit 3  checker error (solver crash, engine/CPython disagreement, vacuous contract); no VIOLATION line"""
from __future__ import annotations

import argparse
import json
import os
import re
import subprocess
import sys
import time

HERE = os.path.dirname(os.path.abspath(__file__))
sys.path.insert(0, HERE)
NATIVE_PY = "/venv/bin/python"
REPO = os.environ.get("PYVC_REPO", "/repo")


def OUT(sub):
    """evidence/ and replays/ live next to this file; a self-test against a scratch tree redirects them (PYVC_OUT) so
    that the committed evidence only ever comes from runs against /repo itself"""
    return os.path.join(os.environ.get("PYVC_OUT") or HERE, sub)


def canon(name):
    name = re.sub(r"path\d+@L\d+\.", "", name)
    name = re.sub(r"\.L\d+\.", ".", name)
    return name


def load_known():
    p = os.path.join(HERE, "known_findings.json")
    if not os.path.exists(p):
        return {"findings": [], "fixed": []}
    return json.load(open(p))


def native(args, timeout=None):
    timeout = timeout or (300 if "quick" in args else 1800)
    env = dict(os.environ)
    env["PYVC_REPO"] = REPO
    try:
        p = subprocess.run([NATIVE_PY, os.path.join(HERE, "pyvc", "native.py")] + args, capture_output=True,
                           text=True, timeout=timeout, env=env, cwd=HERE)
    except subprocess.TimeoutExpired:
        return {"status": "timeout"}
    try:
        return json.loads(p.stdout.strip().splitlines()[-1])
    except Exception:
        return {"status": "error", "stderr": (p.stderr or "")[-2000:], "stdout": (p.stdout or "")[-500:]}


VT_BOUNDED = {"sizing_sweep"}     # stand-ins that need mpmath: run under python3-vt with the repository on PYTHONPATH


def run_bounded(prop, name, tier, seed):
    env = dict(os.environ)
    env["PYVC_REPO"] = REPO
    py = NATIVE_PY
    if name in VT_BOUNDED:
        py = sys.executable
        env["PYTHONPATH"] = REPO + os.pathsep + env.get("PYTHONPATH", "")
    try:
        p = subprocess.run([py, os.path.join(HERE, "bounded", "run.py"), name, tier, str(seed)],
                           capture_output=True, text=True, timeout=600 if tier == "quick" else 7200, env=env, cwd=HERE)
        return json.loads(p.stdout.strip().splitlines()[-1])
    except Exception as e:   # noqa: BLE001
        return {"status": "error", "error": f"{type(e).__name__}: {e}",
                "stderr": (getattr(p, "stderr", "") or "")[-2000:] if "p" in dir() else ""}


def watchdog(seconds):
    """a check never hangs: after `seconds` it reports a checker error (exit 3) with the stacks of all threads"""
    import faulthandler
    import signal

    def fire(signum, frame):
        sys.stdout.flush()
        print(f"CHECKER-ERROR: no verdict within {seconds}s (watchdog); thread stacks follow on stderr", flush=True)
        faulthandler.dump_traceback(all_threads=True)
        kids = []
        try:
            me = str(os.getpid())
            for pid in os.listdir("/proc"):
                if pid.isdigit():
                    try:
                        st_ = open(f"/proc/{pid}/stat").read().rsplit(")", 1)[1].split()
                        if st_[1] == me:
                            kids.append(int(pid))
                    except OSError:
                        pass
            for k in kids:
                sys.stderr.write(f"--- worker {k}: {open(f'/proc/{k}/cmdline').read().replace(chr(0), ' ')[:200]}\n")
                os.kill(k, signal.SIGUSR1)
            time.sleep(2)
            for k in kids:
                os.kill(k, signal.SIGKILL)
        except Exception as e:   # noqa: BLE001
            sys.stderr.write(f"(could not signal the workers: {e})\n")
        os._exit(3)
    signal.signal(signal.SIGALRM, fire)
    signal.alarm(seconds)


def items_by_result(r, timeout_ms, thorough):
    """the work item a result record came from"""
    al = r.get("alias")
    return (r["key"], r["ctx"], tuple(al) if isinstance(al, (list, tuple)) else (tuple(sorted(al.items())) if isinstance(al, dict) else al),
            timeout_ms, thorough)


def main():
    ap = argparse.ArgumentParser()
    ap.add_argument("--property")
    ap.add_argument("--tier", default=os.environ.get("VERIF_TIER", "quick"))
    ap.add_argument("--replay")
    ap.add_argument("--jobs", type=int, default=16)
    ap.add_argument("--verbose", action="store_true")
    a = ap.parse_args()
    if a.replay:
        return replay(a.replay)
    seed = int(os.environ.get("VERIF_SEED", "0") or 0)
    watchdog(int(os.environ.get("PYVC_WATCHDOG_S", "0") or 0) or (840 if a.tier == "quick" else 6 * 3600))
    return check_property(a.property, a.tier, seed, a.jobs, a.verbose)


def replay(path):
    rp = json.load(open(path))
    print(f"replay of {path}: property {rp.get('property')} obligation {rp.get('obligation')}")
    if rp.get("bounded"):
        # a failure of a bounded stand-in: the stand-in is deterministic in (tier, seed); run it again on this tree and
        # look for the same clause
        br = run_bounded(rp.get("property"), rp["bounded"], rp.get("tier", "quick"), int(rp.get("seed", 1)))
        same = [f for f in br.get("failures", []) if f.get("obligation") == rp.get("obligation")]
        print(json.dumps({"stand_in": rp["bounded"], "status": br.get("status"), "cases": br.get("cases"),
                          "failure_recorded": rp.get("failure"), "failure_now": same[:1]}, indent=1, default=str)[:4000])
        if same:
            print(f"VIOLATION property={rp.get('property')} replay={path}")
            return 1
        if br.get("status") == "error":
            print("the stand-in could not be run on this tree:", br.get("error"))
            return 3
        print("the stand-in no longer reports this clause on this tree")
        return 0
    if rp.get("case") is not None:
        res = native(["replay", path])
        print(json.dumps(res, indent=1))
        if res.get("status") == "refuted":
            print(f"VIOLATION property={rp.get('property')} replay={path}")
            return 1
        print("the stored input no longer violates the contract on this tree")
        return 0
    print("no concrete input was found for this obligation; solver output follows")
    print(json.dumps(rp.get("solver"), indent=1))
    return 0


def check_property(prop, tier, seed, jobs, verbose):
    t_start = time.time()
    import contracts  # noqa: F401
    import lemmas  # noqa: F401
    from pyvc import theories as TH
    from pyvc.api import CONTRACTS, LEMMAS
    from pyvc.frontend import Repo
    from pyvc import runner

    thorough = tier == "thorough"
    timeout_ms = 20000 if not thorough else 120000
    repo = Repo()
    checker_errors = list(repo.errors)

    # ---- guards -----------------------------------------------------------------------------
    cases, failures = TH.validate_native()
    if failures:
        checker_errors.append(f"bit lemma refuted natively: {failures[:3]}")
    import z3
    s = z3.Solver()
    x = z3.Int("x")
    s.add(x + 1 <= x)
    canary_ok = s.check() == z3.unsat
    s2 = z3.Solver()
    s2.add(x + 1 > x, x > 5)
    canary_ok = canary_ok and s2.check() == z3.sat
    if not canary_ok:
        checker_errors.append("solver canary failed")
    from pyvc import tables
    tcases, tfail = tables.validate_native(seed)
    if tfail:
        checker_errors.append(f"T-occ2 fact refuted natively: {tfail[:2]}")
    from pyvc import streams
    dl = streams.prove_digit_lemmas()
    if any(r != "unsat" for _, r in dl):
        checker_errors.append(f"digit lemma not proved over bit-vectors: {dl}")

    # ---- work items ---------------------------------------------------------------------------
    items = []
    trusted = []
    for key, c in CONTRACTS.items():
        if prop not in c.properties:
            continue
        if c.trusted:
            trusted.append(f"{key}: ASSUMED contract ({c.trusted_reason})")
            continue
        for ctx in (c.contexts or [None]):
            items.append((key, ctx, None, timeout_ms, thorough))
            for al in c.alias_cases:
                items.append((key, ctx, tuple(al), timeout_ms, thorough))
            for var in c.variants:
                items.append((key, ctx, tuple(sorted(var.items())), timeout_ms, thorough))
    for name, lm in LEMMAS.items():
        if prop in lm.contract_kw.get("properties", []):
            items.append((name, None, None, timeout_ms, thorough))
            for var in lm.contract_kw.get("variants", []):
                items.append((name, None, tuple(sorted(var.items())), timeout_ms, thorough))
    results = runner.run_items(items, jobs, item_timeout=780 if tier == "quick" else 5 * 3600) if items else []

    # ---- confirmation pass: an obligation the solvers gave up on (no model) has to fail TWICE -----------------
    # The first pass runs 16 functions side by side; a solver that ran out of memory or time there (other checks on
    # the machine, a worker of an earlier run still alive) answers `unknown`, which must not become a VIOLATION.
    # Functions with such obligations are verified again, few at a time; a function is reported only if it fails again.
    # (quick tier: only while the check is younger than 300 s, and for at most 300 s - the watchdog fires at 840 s.)
    second_pass = []
    gave_up = [i for i, r in enumerate(results)
               if not r["error"] and not r["unsupported"] and any(o["status"] != "proved" for o in r["obligations"])]
    if gave_up and (tier != "quick" or time.time() - t_start < 300) and len(gave_up) <= 8:
        again = runner.run_items([items_by_result(results[i], timeout_ms, thorough) for i in gave_up], min(4, len(gave_up)),
                                 item_timeout=min(300, 700 - int(time.time() - t_start)) if tier == "quick" else 5 * 3600)
        for i, r2 in zip(gave_up, again):
            r1 = results[i]
            n1 = sum(o["status"] != "proved" for o in r1["obligations"])
            ok2 = not r2["error"] and not r2["unsupported"] and r2["obligations"] and \
                all(o["status"] == "proved" for o in r2["obligations"])
            second_pass.append({"function": r1["key"] + (f" [receiver {r1['ctx']}]" if r1["ctx"] else ""),
                                "unproved_in_first_pass": n1, "second_pass": "all proved" if ok2 else "failed again"})
            if ok2:
                results[i] = r2
                print(f"NOTE: {r1['key']}: {n1} obligation(s) the solvers gave up on in the parallel pass were all discharged "
                      "in the confirmation pass (load-dependent solver answer; counted as proved, recorded in the evidence)")

    # ---- triage --------------------------------------------------------------------------------
    known = load_known()
    obligations = discharged = 0
    by_backend = {}
    solver_s = 0.0
    functions = []
    failed = {}          # (key, ctx) -> list of obligation records
    undecided = []
    lib_used, inlined, callees = set(), set(), set()
    samples = []
    slow = []
    cross = {}
    for r in results:
        label = r["key"] + (f" [receiver {r['ctx']}]" if r["ctx"] else "") + (f" [alias {r['alias']}]" if r["alias"] else "")
        if r["error"]:
            checker_errors.append(f"{label}: {r['error'][-600:]}")
            continue
        if r["vacuous"]:
            checker_errors.append(f"{label}: " + (r["vacuous"] if isinstance(r["vacuous"], str)
                                                  else "precondition unsatisfiable (vacuous contract)"))
        if r["unsupported"]:
            undecided.append((r, label))
            continue
        functions.append({"function": label, "file": r["file"], "lines": r["span"],
                          "sha256": repo.sha.get(r["file"]) if r["file"] else None,
                          "paths": r["paths"], "obligations": len(r["obligations"]),
                          "proved": sum(o["status"] == "proved" for o in r["obligations"]), "wall_s": r["wall"]})
        if not r["obligations"]:
            checker_errors.append(f"{label}: zero obligations generated")
        lib_used.update(r["lib_used"])
        inlined.update(r["inlined"])
        callees.update(r["callees"])
        for o in r["obligations"]:
            obligations += 1
            solver_s += o["time"]
            slow.append((o["time"], canon(o["name"]), o["backend"], o["status"]))
            for be, ans in (o.get("cross_checked") or {}).items():
                cross.setdefault(be, {}).setdefault(ans if ans in ("unsat", "sat") else "undecided", 0)
                cross[be][ans if ans in ("unsat", "sat") else "undecided"] += 1
                if ans == "sat":
                    checker_errors.append(f"solver disagreement: {be} reports a model for {canon(o['name'])}, which "
                                          f"{o['backend']} discharged")
            if o["status"] == "proved":
                discharged += 1
                by_backend[o["backend"]] = by_backend.get(o["backend"], 0) + 1
                if len(samples) < 6 and o["kind"] in ("ensures", "loop-preserve"):
                    samples.append({"obligation": canon(o["name"]), "kind": o["kind"], "backend": o["backend"],
                                    "solver_s": o["time"], "hypotheses": o["size"]})
            else:
                failed.setdefault((r["key"], r["ctx"]), []).append(o)

    # ---- syntactic may-write closure (frames for every method, with or without contract) ---------------------
    from pyvc import frames as FR
    from contracts import frames as FE
    frame_recs = []
    if prop == "C19":
        frame_recs = FR.check_expectations(repo, FE.READ_ONLY, [], {})
    elif prop == "C13":
        frame_recs = FR.check_expectations(repo, {}, FE.OPERANDS, {})
    elif prop == "C15":
        frame_recs = FR.check_expectations(repo, {}, [], FE.WRITERS)
    frame_failed = []
    for fr in frame_recs:
        obligations += 1
        if fr["status"] == "proved":
            discharged += 1
            by_backend["syntactic may-write closure"] = by_backend.get("syntactic may-write closure", 0) + 1
        else:
            frame_failed.append(fr)

    # ---- bounded stand-ins ----------------------------------------------------------------------
    bounded_recs = []
    viol_lines = []
    known_lines = []
    violations = 0
    try:
        from bounded import REGISTRY as BOUNDED
    except Exception:
        BOUNDED = {}
    for name in BOUNDED.get(prop, []):
        br = run_bounded(prop, name, tier, seed)
        rec = {"name": name, "bound": br.get("bound", "?"), "cases": br.get("cases", 0), "status": br.get("status")}
        bounded_recs.append(rec)
        if br.get("status") == "error":
            checker_errors.append(f"bounded {name}: {br.get('error')} {br.get('stderr', '')[-400:]}")
        for f in br.get("failures", []):
            kf = match_known(known, prop, f.get("obligation", "B." + name), f)
            if kf:
                known_lines.append(f"KNOWN-FINDING: property={prop} {kf['what']}")
                continue
            violations += 1
            path = write_replay(prop, f.get("obligation", "B." + name), {"bounded": name, "tier": tier, "seed": seed, "failure": f,
                                                                         "case": f.get("case"), "key": f.get("key"), "ctx": f.get("ctx")})
            viol_lines.append(f"VIOLATION property={prop} replay={path}")

    # ---- every function under contract that has a generator: native small-scope run of the REAL code
    #      against the same contract text (bounded; finds concrete inputs; cross-checks the contracts) -------
    from concurrent.futures import ThreadPoolExecutor
    native_jobs = {}
    done_keys = set()
    with ThreadPoolExecutor(max_workers=jobs) as tp:
        for r in results:
            kk = (r["key"], r["ctx"])
            if r["key"] in CONTRACTS and kk not in done_keys and not r["error"]:
                done_keys.add(kk)
                native_jobs[kk] = tp.submit(native, ["search", r["key"], r["ctx"] or "-", tier, str(seed)])
    native_res = {k: f.result() for k, f in native_jobs.items()}

    for fr in frame_failed:
        kf = match_known(known, prop, fr["name"], fr)
        if kf:
            known_lines.append(f"KNOWN-FINDING: property={prop} {kf['what']}")
            continue
        violations += 1
        path = write_replay(prop, fr["name"], {"frame_analysis": fr})
        viol_lines.append(f"VIOLATION property={prop} replay={path} obligation={fr['name']} no-failing-input-found")

    # ---- undecided functions: native small-scope contract check stands in ---------------------------
    exit_undecided = False
    for r, label in undecided:
        res = native_res.get((r["key"], r["ctx"])) or {"status": "no-generator"}
        rec = {"name": f"native small-scope contract check of {label}", "bound": "generator scope (contracts/gens.py)",
               "cases": res.get("cases", 0), "status": res.get("status"), "why": r["unsupported"]}
        bounded_recs.append(rec)
        if res.get("status") == "refuted":
            ob = f"B.{r['key']}.{res['failure']['clause']}"
            kf = match_known(known, prop, ob, res)
            if kf:
                known_lines.append(f"KNOWN-FINDING: property={prop} {kf['what']}")
                continue
            violations += 1
            path = write_replay(prop, ob, {"key": r["key"], "ctx": r["ctx"], "case": res["case"], "failure": res["failure"]})
            viol_lines.append(f"VIOLATION property={prop} replay={path}")
        elif res.get("status") == "no-generator":
            exit_undecided = True
            print(f"UNDECIDED {label}: {r['unsupported']} (outside the verifier's subset, no native stand-in)")
        elif not CONTRACTS[r["key"]].bounded_only:
            # the contract of this function is meant to be PROVED; a body that left the verifier's subset and merely
            # survives the small-scope native run is not decided
            exit_undecided = True
            print(f"UNDECIDED {label}: {r['unsupported']} (outside the verifier's subset; the native small-scope run of "
                  f"{res.get('cases', 0)} cases found nothing, which decides nothing)")
        elif res.get("status") in ("error", "timeout", "prestate-error"):
            checker_errors.append(f"native stand-in for {label}: {res}")

    # ---- failed obligations: refute natively, else report with solver output --------------------------
    for (key, ctx), obs in failed.items():
        # obligations that went through the whole plan first, the curtailed ones (quick attempts only) after them
        names = list(dict.fromkeys([canon(o["name"]) for o in obs if not o.get("curtailed")]
                                   + [canon(o["name"]) for o in obs if o.get("curtailed")]))
        res = native_res.get((key, ctx)) or {"status": "no-generator"}
        remaining = []
        for n in names:
            kf = match_known(known, prop, n, res if res.get("status") == "refuted" else None)
            if kf:
                known_lines.append(f"KNOWN-FINDING: property={prop} {kf['what']}")
            else:
                remaining.append(n)
        if not remaining:
            continue
        violations += 1
        solver = [{"obligation": canon(o["name"]), "raw": o["name"], "status": o["status"], "reason": o.get("reason"),
                   "tries": o.get("tries"), "model": o.get("model"), "line": o["line"],
                   **({"curtailed": True} if o.get("curtailed") else {})} for o in obs]
        if res.get("status") == "refuted":
            ob = next((n for n in remaining if n.endswith(res["failure"]["clause"])), remaining[0])
            path = write_replay(prop, ob, {"key": key, "ctx": ctx, "case": res["case"], "failure": res["failure"],
                                           "failed_obligations": remaining, "solver": solver})
            viol_lines.append(f"VIOLATION property={prop} replay={path} obligation={ob}")
        else:
            ob = remaining[0]
            path = write_replay(prop, ob, {"key": key, "ctx": ctx, "failed_obligations": remaining, "solver": solver,
                                           "native_search": {k: res.get(k) for k in ("status", "cases", "skipped")}})
            viol_lines.append(f"VIOLATION property={prop} replay={path} obligation={ob} no-failing-input-found")

    # ---- functions whose obligations were all discharged but whose native run disagrees: the engine and
    #      CPython differ -> checker error, never a verdict ------------------------------------------------
    und_keys = {(r["key"], r["ctx"]) for r, _ in undecided}
    native_cases = 0
    for kk, res in native_res.items():
        native_cases += res.get("cases", 0) or 0
        if kk in failed or kk in und_keys:
            continue
        if res.get("status") == "refuted":
            path = write_replay(prop, f"X.{kk[0]}.{res['failure']['clause']}",
                                {"key": kk[0], "ctx": kk[1], "case": res["case"], "failure": res["failure"]})
            if failed or und_keys:
                # a caller proved against the contract of a callee whose own obligations fail in this run: the native
                # failure of the caller is a consequence of that violation, not a disagreement of the engine
                print(f"NOTE: native run of {kk[0]} also violates {res['failure']['clause']} (input in {path}); "
                      "its obligations rest on the contract of a function that fails in this run")
            else:
                checker_errors.append(f"{kk[0]}: all obligations discharged but the native run of the real code violates "
                                      f"{res['failure']['clause']} (engine/CPython disagreement or wrong generator); "
                                      f"input in {path}")
        elif res.get("status") in ("error", "timeout"):
            checker_errors.append(f"native run for {kk[0]}: {str(res)[:600]}")
        elif res.get("status") == "prestate-error" or res.get("prestate_errors"):
            msg = (f"native run for {kk[0]}: {res.get('prestate_errors', res.get('cases'))} of {res.get('cases')} pre-states could "
                   f"not be built, the real code raised while running the recipe: {res.get('why')}")
            if res.get("status") == "prestate-error" and not (failed or und_keys):
                checker_errors.append(msg)
            else:
                print("NOTE:", msg)
        if res.get("status") != "no-generator":
            bounded_recs.append({"name": f"native run of {kk[0]} against its contract", "cases": res.get("cases", 0),
                                 "bound": "generator scope in contracts/gens.py", "status": res.get("status")})

    for t_, n_, b_, st_ in sorted(slow, reverse=True)[:3]:
        if t_ > 5.0 and st_ == "proved":
            print(f"NOTE: slow obligation ({t_}s, {b_}): {n_} - obligations that need seconds are the unstable ones")

    # ---- thorough tier: detection self-test (informational, never changes the verdict) ----------------------
    self_test = []
    if tier == "thorough" and not viol_lines and not checker_errors and not exit_undecided \
            and not os.environ.get("PYVC_NO_SELFTEST"):
        self_test = run_self_test(prop, jobs)
        for r in self_test:
            if not r.get("as_expected", True):
                print(f"NOTE: self-test {r['id']}: expected {r['expected']}, the quick check of the changed tree exited {r['exit']}")

    # ---- evidence -----------------------------------------------------------------------------------
    wall = round(time.time() - t_start, 2)
    level = "proof"
    from contracts import LEVELS
    meta = LEVELS.get(prop, {})
    if meta.get("level", "proof") != "proof" or obligations == 0 or discharged != obligations:
        level = "other" if meta.get("level", "proof") == "proof" else meta["level"]
    trusted_base = sorted(lib_used) + trusted + meta.get("assumptions", []) + [
        "encoding of Python: int = mathematical integers; // and % by a proved-positive divisor = SMT div/mod; "
        "x & (2**n-1) = x mod 2**n; x >> n = x div 2**n; 1 << n = 2**n; ~x = -x-1 (exact CPython semantics)",
        f"8-bit lemmas for | & ~ popcount: validated exhaustively by CPython on every run ({cases} cases this run)",
        f"T-occ2 table-count axioms and update facts: validated on random tables by CPython on every run ({tcases} cases)",
        "encapsulation: objects are mutated only through the operations under contract",
        "the engine pyvc itself (VC generator written for this task; guarded by canary, cover checks, mutation self-test)",
    ]
    coverage = {
        "obligations": obligations, "discharged": discharged,
        "checker_cmd": f"python3-vt /verif/check.py --property {prop} --tier {tier}",
        "trusted_base": trusted_base,
        "functions_under_contract": functions,
        "inlined_accessors": sorted(inlined),
        "callee_contracts_used": sorted(callees),
        "by_backend": by_backend, "solver_s": round(solver_s, 2),
        "cross_check_of_discharged_obligations": cross or "thorough tier only",
        "confirmation_pass": second_pass,
        "slowest_obligations": [{"solver_s": t, "obligation": n, "backend": b, "status": st_}
                                for t, n, b, st_ in sorted(slow, reverse=True)[:8]],
        "bounded_stand_ins": bounded_recs,
        "undecided_functions": [lbl + ": " + r["unsupported"] for r, lbl in undecided],
        "known_findings": sorted(set(known_lines)),
        "samples": samples or [{"note": "no discharged ensures/loop obligation to sample"}],
        "explanation": meta.get("explanation", "") or
        "contract-based deductive verification: VCs generated from the AST of the real source (re-read on every "
        "run), discharged by z3/cvc5; see DESIGN.md",
        "source_sha256": repo.sha,
        "checker_errors": checker_errors,
    }
    if self_test:
        coverage["self_test"] = {
            "what": "each change kept under /verif/seeded (breaks this property, keeps the repository's tests green) and each "
                    "behaviour-preserving edit under /verif/selftest/refactorings is applied to a scratch copy of the "
                    "CURRENT tree and the quick check of this property is run on it; expected: VIOLATION (exit 1) for the "
                    "former, no alarm (exit 0, or 2 = undecided) for the latter; informational",
            "runs": self_test}
    if level != "proof":
        coverage["evaluations"] = max(1, obligations + sum(b.get("cases", 0) or 0 for b in bounded_recs))
        coverage["distinct_nontrivial"] = max(2, discharged + sum(b.get("cases", 0) or 0 for b in bounded_recs))
        coverage["rule"] = ("obligations generated from distinct (function, path, clause) triples plus distinct "
                            "cases enumerated by the labelled bounded stand-ins")
    ev = {"property_id": prop, "tier": tier, "seed": seed, "level": level, "coverage": coverage,
          "assumptions": trusted_base, "wall_s": wall, "violations": violations}
    os.makedirs(OUT("evidence"), exist_ok=True)
    json.dump(ev, open(os.path.join(OUT("evidence"), f"{prop}.json"), "w"), indent=1, default=str)

    # ---- verdict ----------------------------------------------------------------------------------------
    print(f"property {prop} tier {tier}: {len(functions)} functions under contract, {discharged}/{obligations} "
          f"obligations discharged, {len(bounded_recs)} bounded stand-ins, {wall}s")
    if verbose:
        for f in functions:
            print("   ", f["function"], f"{f['proved']}/{f['obligations']}", f"{f['wall_s']}s")
    for ln in sorted(set(known_lines)):
        print(ln)
    for e in checker_errors:
        print("CHECKER-ERROR:", e)
    if viol_lines:
        # a violation stands on its own obligation (solver result or replayed input); a checker error elsewhere in
        # the same run is reported next to it but does not hide it
        for ln in dict.fromkeys(viol_lines):
            print(ln)
        return 1
    if checker_errors:
        return 3
    if exit_undecided:
        return 2
    if obligations == 0 and not bounded_recs:
        print("CHECKER-ERROR: no obligations and no bounded stand-in for this property")
        return 3
    return 0


def run_self_test(prop, jobs):
    import glob
    import shutil
    import tempfile
    from concurrent.futures import ThreadPoolExecutor
    items = [(d, "violation") for d in sorted(glob.glob(os.path.join(HERE, "seeded", prop + "-*")))] + \
            [(d, "held") for d in sorted(glob.glob(os.path.join(HERE, "selftest", "refactorings", prop + "-*")))]

    def one(item):
        d, expected = item
        scratch = tempfile.mkdtemp(prefix="pyvc-selftest-")
        outdir = tempfile.mkdtemp(prefix="pyvc-selftest-out-")
        rec = {"id": os.path.basename(d), "expected": expected}
        try:
            subprocess.run(["rsync", "-a", "--exclude", ".git", "--exclude", "__pycache__", REPO.rstrip("/") + "/", scratch + "/"],
                           check=True, capture_output=True)
            a = subprocess.run(["git", "apply", os.path.join(d, "patch.diff")], cwd=scratch, capture_output=True, text=True)
            if a.returncode != 0:
                rec.update(skipped="patch does not apply to the current tree")
                return rec
            t0 = time.time()
            c = subprocess.run([sys.executable, os.path.join(HERE, "check.py"), "--property", prop, "--tier", "quick",
                                "--jobs", str(max(2, jobs // 3))],
                               env=dict(os.environ, PYVC_REPO=scratch, PYVC_OUT=outdir), capture_output=True, text=True)
            first = next((ln for ln in c.stdout.splitlines() if ln.startswith(("VIOLATION", "UNDECIDED", "CHECKER"))), "")
            rec.update(exit=c.returncode, seconds=round(time.time() - t0, 1), first_line=first[:200].replace(outdir, "<out>"),
                       as_expected=(c.returncode == 1) if expected == "violation" else (c.returncode in (0, 2)))
            return rec
        finally:
            shutil.rmtree(scratch, ignore_errors=True)
            shutil.rmtree(outdir, ignore_errors=True)

    with ThreadPoolExecutor(max_workers=3) as tp:
        return list(tp.map(one, items))


def match_known(known, prop, obligation, res):
    for f in known.get("findings", []):
        if f["property"] != prop:
            continue
        if not re.fullmatch(f["obligation"], obligation):
            continue
        wc = f.get("witness_class")
        if wc:
            # the finding covers only witnesses of the recorded class; anything else is a new violation
            rec = res if isinstance(res, dict) else {}
            eqs = wc.get("eq", {k: v for k, v in wc.items() if k not in ("eq", "max")})
            if not all(rec.get(k) == v for k, v in eqs.items()):
                continue
            if not all(isinstance(rec.get(k), (int, float)) and rec.get(k) <= v for k, v in wc.get("max", {}).items()):
                continue
        return f
    return None


def write_replay(prop, obligation, payload):
    d = os.path.join(OUT("replays"), prop)
    os.makedirs(d, exist_ok=True)
    fn = re.sub(r"[^A-Za-z0-9_.-]+", "_", obligation)[:150] + ".json"
    path = os.path.join(d, fn)
    payload = dict(payload)
    payload["property"] = prop
    payload["obligation"] = obligation
    json.dump(payload, open(path, "w"), indent=1, default=str)
    return path


if __name__ == "__main__":
    sys.exit(main())
