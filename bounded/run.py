"""run one bounded stand-in natively:  run.py <name> <tier> <seed>  -> JSON on stdout"""
import importlib
import json
import os
import sys
import traceback

HERE = os.path.dirname(os.path.abspath(__file__))
sys.path.insert(0, os.path.dirname(HERE))
sys.path.insert(0, os.environ.get("PYVC_REPO", "/repo"))

if __name__ == "__main__":
    name, tier, seed = sys.argv[1], sys.argv[2], int(sys.argv[3])
    try:
        modname, _, arg = name.partition(":")
        mod = importlib.import_module("bounded." + modname)
        out = mod.run(tier, seed, arg) if arg else mod.run(tier, seed)
        out.setdefault("status", "refuted" if out.get("failures") else "clean")
    except Exception as e:   # noqa: BLE001
        out = {"status": "error", "error": f"{type(e).__name__}: {e}", "stderr": traceback.format_exc()[-1500:]}
    print(json.dumps(out, default=str))
