"""C11, bounded stand-in (never counted as proved): the REAL BloomFilterOnDisk is driven through short histories under
`sys.settrace`; at every executed source line of the library while an add / clear / close / export is in progress the
backing file is read through a second descriptor (what a process killed at that line leaves behind: the mapping is
shared, so the page cache is what the kernel keeps) and compared with what the property allows at that point.

The deductive part of C11 (contracts/ondisk.py) carries the property as an invariant over the byte-stream model; this
run is for bodies that leave the verifier's subset (`Struct.pack_into` on the mapping, slice assignment to the mapping)
and as a cross-check of the file model against the operating system."""
import os
import random
import struct
import sys
import tempfile

from probables import BloomFilter, BloomFilterOnDisk

FOOT = struct.Struct("QQf")
LIB = os.sep + "probables" + os.sep


def footer(b):
    return FOOT.unpack(b[-FOOT.size:])


class Tracer:
    """calls `probe(lineinfo)` before every line of library code executed while active"""

    def __init__(self, probe):
        self.probe = probe
        self.points = 0

    def _local(self, frame, event, arg):
        if event == "line":
            self.points += 1
            self.probe(f"{os.path.basename(frame.f_code.co_filename)}:{frame.f_lineno}")
        return self._local

    def _global(self, frame, event, arg):
        if LIB in frame.f_code.co_filename:
            return self._local
        return None

    def __enter__(self):
        sys.settrace(self._global)
        return self

    def __exit__(self, *a):
        sys.settrace(None)


def run(tier, seed):
    rnd = random.Random(seed)
    failures = []
    cases = [0]
    points = [0]
    # bit counts: 63, 125 (the tests' geometries), and exact multiples of 8: 400, 480, 624; 48 bits
    geos = [(10, 0.05), (20, 0.05), (64, 0.05), (50, 0.01), (100, 0.05), (7, 0.0365)]
    if tier == "thorough":
        geos += [(n, p) for n in (1, 2, 3, 5, 33, 77, 128) for p in (0.3, 0.1, 0.01, 0.001)]
    nkeys = 4 if tier == "quick" else 9

    def fail(ob, clause, case):
        if len(failures) < 20:
            failures.append({"obligation": "B.ondisk_trace." + ob, "clause": clause, "case": case})

    home = os.getcwd()
    with tempfile.TemporaryDirectory(prefix="pyvc-odt-") as tmp:
        other = os.path.join(tmp, "elsewhere")
        os.mkdir(other)
        for gi, (est, fpr) in enumerate(geos):
            for rel in (False, True):
                cases[0] += 1
                case = {"est_elements": est, "false_positive_rate": fpr, "relative_path": rel}
                name = f"f{gi}{int(rel)}.blm"
                path = os.path.join(tmp, name)
                try:
                    os.chdir(tmp)
                    f = BloomFilterOnDisk(name if rel else path, est, fpr)
                    mem = BloomFilter(est, fpr)
                    size = mem.bloom_length + FOOT.size
                    fpr32 = footer(bytes(mem))[2]
                    keys = [f"key{rnd.randrange(10 ** 6)}" for _ in range(nkeys)]
                    done = []

                    def well_formed(blob, where, lo_bits, hi_bits, counts):
                        if len(blob) != size:
                            return fail("file_is_well_formed_export", f"file has {len(blob)} bytes, an export has {size} ({where})", case)
                        e_, n_, p_ = footer(blob)
                        if e_ != est or p_ != fpr32:
                            return fail("file_is_well_formed_export", f"footer holds est_elements={e_}, rate={p_!r}; the filter has {est}, {fpr32!r} ({where})", case)
                        if n_ not in counts:
                            return fail("recorded_count_is_current", f"file records {n_} elements, allowed {sorted(counts)} ({where})", case)
                        body = blob[:-FOOT.size]
                        if any((b & l) != l for b, l in zip(body, lo_bits)):
                            return fail("completed_additions_are_in_the_file", f"a bit of a completed addition is missing ({where})", case)
                        if any((b | h) != h for b, h in zip(body, hi_bits)):
                            return fail("file_is_well_formed_export", f"a bit no addition sets is set ({where})", case)
                        return True

                    def snapshot():
                        with open(path, "rb") as fh:
                            return fh.read()

                    # ---- adds, probed at every library line ----
                    for k in keys:
                        before = bytes(mem)[:-FOOT.size]
                        n0 = mem.elements_added
                        mem.add(k)
                        after = bytes(mem)[:-FOOT.size]
                        seen = set()

                        def probe(where, before=before, after=after, n0=n0, seen=seen):
                            blob = snapshot()
                            if blob in seen:
                                return
                            seen.add(blob)
                            well_formed(blob, f"killed at {where} during add #{n0 + 1}", before, after, {n0, n0 + 1})
                        with Tracer(probe) as tr:
                            f.add(k)
                        points[0] += tr.points
                        done.append(k)
                        if snapshot() != bytes(mem):
                            fail("file_equals_in_memory_export_after_each_add", f"after add #{len(done)} the file differs from the export of an "
                                 "in-memory filter with the same history", case)
                            break
                    # ---- export of the live filter: a copy of the backing file ----
                    copy = os.path.join(tmp, "copy.blm")
                    f.export(copy)
                    if open(copy, "rb").read() != bytes(mem):
                        fail("export_is_a_copy_of_the_file", "export of the live on-disk filter differs from the in-memory export", case)
                    g = BloomFilter(filepath=copy)
                    if g.elements_added != len(done) or not all(g.check(k) for k in done):
                        fail("snapshot_reloads", "a snapshot of the live file loaded with BloomFilter(filepath=...) loses keys or the count", case)
                    # ---- close; reopen from another working directory; add; close; reopen ----
                    f.close()
                    if snapshot() != bytes(mem):
                        fail("file_equals_in_memory_export_after_close", "after close the file differs from the in-memory export", case)
                    os.chdir(other)
                    f = BloomFilterOnDisk(os.path.relpath(path, other) if rel else path)
                    if f.elements_added != len(done) or not all(f.check(k) for k in done):
                        fail("reopen_keeps_keys_and_count", f"reopened filter reports {f.elements_added} elements / loses keys (expected {len(done)})", case)
                    extra = f"more{rnd.randrange(10 ** 6)}"
                    f.add(extra)
                    mem.add(extra)
                    done.append(extra)
                    f.close()
                    if snapshot() != bytes(mem):
                        fail("second_close_keeps_the_file_current", "after reopen + add + close the file differs from the in-memory export", case)
                    f = BloomFilterOnDisk(path)
                    if f.elements_added != len(done) or not all(f.check(k) for k in done):
                        fail("reopen_keeps_keys_and_count", f"second reopen reports {f.elements_added} elements / loses keys (expected {len(done)})", case)
                    # ---- clear on the live filter: the file is the export of an empty filter of the same geometry,
                    #      and stays loadable; adds afterwards are recorded ----
                    empty = BloomFilter(est, fpr)

                    def probe_clear(where):
                        blob = snapshot()
                        if len(blob) != size or footer(blob)[0] != est or footer(blob)[2] != fpr32:
                            fail("file_is_well_formed_export", f"file is not a well-formed export (killed at {where} during clear)", case)
                    with Tracer(probe_clear) as tr:
                        f.clear()
                    points[0] += tr.points
                    if snapshot() != bytes(empty):
                        fail("file_is_current_after_clear", "after clear the file differs from the export of an empty filter of the same geometry", case)
                    f.add(keys[0])
                    empty.add(keys[0])
                    if snapshot() != bytes(empty):
                        fail("file_is_current_after_clear", "after clear + add the file differs from the in-memory export", case)
                    f.close()
                    try:
                        h = BloomFilterOnDisk(path)
                        ok = h.elements_added == 1 and h.check(keys[0])
                        h.close()
                    except Exception as e:   # noqa: BLE001
                        ok = False
                        case = dict(case, error=f"{type(e).__name__}: {e}")
                    if not ok:
                        fail("reopen_after_clear", "the file of a cleared (then used) filter cannot be reopened with its key and count", case)
                except Exception as e:   # noqa: BLE001
                    sys.settrace(None)
                    fail("history_runs", f"{type(e).__name__}: {e}", case)
                finally:
                    sys.settrace(None)
                    os.chdir(home)
    return {"cases": cases[0], "crash_points_probed": points[0], "failures": failures,
            "bound": f"{len(geos)} geometries (bit counts 48..624 incl. exact multiples of 8) x absolute / relative path, {nkeys} adds each probed "
                     "at every executed library line, export, close, reopen from another directory, add, close, reopen, clear, add, close, reopen"}
