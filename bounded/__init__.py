"""Bounded stand-ins (labelled bounded in evidence, never counted as proved)."""
REGISTRY = {     # property id -> [stand-in]; "module" or "module:argument"; each module has run(tier, seed[, argument])
    "C01": ["histories:C01"], "C02": ["histories:C02"], "C03": ["histories:C03"], "C04": ["qf_layouts"],
    "C05": ["histories:C05"], "C06": ["histories:C06", "c_header"], "C07": ["sizing_sweep"], "C08": ["histories:C08"], "C09": ["histories:C09"], "C10": ["histories:C09"],
    "C11": ["ondisk_trace"], "C12": ["histories:C12"], "C13": ["histories:C13"], "C14": ["histories:C14"], "C15": ["histories:C15"], "C16": ["histories:C16"], "C17": ["histories:C17"],
}
