"""Bounded stand-ins (labelled bounded in evidence, never counted as proved)."""
REGISTRY = {"C04": ["qf_layouts"]}     # property id -> [stand-in name]; each name is a module bounded/<name>.py with run(tier, seed)
