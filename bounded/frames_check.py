"""placeholder: the syntactic may-write closure runs inside check.py (python3-vt), see pyvc/frames.py"""
