"""C07 bounded stand-in: parameter sweep of the three sizing formulas against the clauses of the property evaluated
in floating point (and, for the Bloom bit count, against a 50-digit evaluation).

Bound: est_elements in {1..200, 2^k, 2^k +- 1, 10^k, random up to 10^9} x about 2000 rates (grid, float32 boundaries,
powers of two, random); confidence / error-rate pairs on the same kind of grid; cuckoo error rates x bucket sizes
1..8.  Labelled bounded; never counted as proved."""
from __future__ import annotations

import math
import random
import struct

from probables import BloomFilter, CountMinSketch, CuckooFilter
from probables.exceptions import InitializationError


def f32(x):
    return struct.unpack("f", struct.pack("f", x))[0]


def nextafter32(x, up):
    b = struct.unpack("I", struct.pack("f", x))[0]
    b = b + 1 if up else b - 1
    return struct.unpack("f", struct.pack("I", b))[0]


def ulp(x):
    return math.ulp(x)


def rates(rnd, n_random):
    out = set()
    for e in range(1, 40):
        out.add(2.0 ** -e)
        out.add(10.0 ** -min(e, 30))
    for e in range(40, 150, 3):           # down to the float32 subnormals (< 2**-126) and the smallest one, 2**-149
        out.add(2.0 ** -e)
    out |= {2.0 ** -126, 2.0 ** -127, 2.0 ** -149, 1e-38, 1.17e-38, 1.18e-38, 1e-39, 1e-41, 1e-44, 1.4e-45}
    for i in range(1, 100):
        out.add(i / 100.0)
    for p in list(out):
        q = f32(p)
        if 0 < q < 1:
            out.add(q)
            for up in (True, False):
                r = nextafter32(q, up)
                if 0 < r < 1:
                    out.add(r)
                    out.add((q + r) / 2)       # a double that narrows to one of the two float32 neighbours
    for _ in range(n_random):
        out.add(rnd.random())
        out.add(10 ** -rnd.uniform(0.01, 12))
    return sorted(x for x in out if 0 < x < 1)


def sizes(rnd, n_random):
    out = set(range(1, 201))
    for k in range(1, 31):
        out |= {2 ** k - 1, 2 ** k, 2 ** k + 1}
    for k in range(1, 10):
        out.add(10 ** k)
    for _ in range(n_random):
        out.add(rnd.randrange(1, 10 ** 9))
    return sorted(out)


def run(tier, seed):
    rnd = random.Random(seed)
    failures = []
    cases = 0
    worst_bloom = 0.0
    import mpmath
    mpmath.mp.dps = 50
    LN2SQ = mpmath.log(2) ** 2

    per_clause = {}

    def fail(clause, **kw):
        per_clause[clause] = per_clause.get(clause, 0) + 1
        # keep the worst witnesses of each clause (largest excess first), a handful per clause
        kw["clause"] = clause
        kw["obligation"] = "B.sizing_sweep." + clause
        mine = [f for f in failures if f["clause"] == clause]
        if len(mine) < 5:
            failures.append(kw)
        else:
            least = min(mine, key=lambda f: f.get("excess_ulps", 0))
            if kw.get("excess_ulps", 0) > least.get("excess_ulps", 0):
                failures[failures.index(least)] = kw

    rs = rates(rnd, 200 if tier == "quick" else 3000)
    ns = sizes(rnd, 20 if tier == "quick" else 400)
    if tier == "quick":
        ns = ns[::3]
        rs = rs[::2]
    for n in ns:
        for p in rs:
            cases += 1
            try:
                fpr, k, m = BloomFilter._get_optimized_params(n, p)
            except InitializationError:
                # allowed only when the derived number of hashes is zero
                p32 = f32(p)
                if 0 < p32 < 1:
                    mm = math.ceil((-n * math.log(p32)) / 0.4804530139182)
                    if int(round(0.6931471805599453 * mm / n)) != 0:
                        fail("bloom_rejected_usable_parameters", n=n, p=p)
                continue
            p32 = f32(p)
            if fpr != p32:
                fail("bloom_rate_is_float32_of_request", n=n, p=p, got=fpr)
            exact = -n * mpmath.log(mpmath.mpf(p32)) / LN2SQ
            if not (exact - 1e-11 * exact - 1e-9 <= m < exact + 1 + 1e-11 * exact + 1e-9):
                fail("bloom_bits_formula", n=n, p=p, m=m, exact=str(exact)[:30])
            if k < 1 or abs(k - 0.6931471805599453 * m / n) > 0.5 + 1e-9:
                fail("bloom_hashes_formula", n=n, p=p, m=m, k=k)
            theo = (1 - math.exp(-k * n / m)) ** k
            ratio = theo / p32
            worst_bloom = max(worst_bloom, ratio)
            if ratio > 1.07:
                fail("bloom_rate_within_7_percent", n=n, p=p, m=m, k=k, theoretical=theo, ratio=ratio)
            # stability: the float32-narrowed rate re-derives the same geometry (what a reloaded filter does)
            if BloomFilter._get_optimized_params(n, p32) != (fpr, k, m) or BloomFilter._get_optimized_params(n, p) != (fpr, k, m):
                fail("bloom_geometry_stable", n=n, p=p)
    # reload stability through the real loaders: the geometry re-derived from an exported footer is the original one
    # (rates with many significant digits, element counts large enough for one ulp of the rate to move the bit count)
    import struct as _struct
    for n in (1, 7, 100, 8000, 50000) if tier == "quick" else (1, 7, 100, 999, 8000, 50000, 200000):
        for p in [1.23456789e-4, 2.5e-7 / 3, 0.0123456789, 1 / 3, 0.05] + [10 ** -rnd.uniform(0.5, 7) for _ in range(4 if tier == "quick" else 20)]:
            cases += 1
            try:
                fpr, k, m = BloomFilter._get_optimized_params(n, p)
            except InitializationError:
                continue
            footer = _struct.pack("QQf", n, 0, fpr)
            got = BloomFilter._parse_footer(BloomFilter._FOOTER_STRUCT, footer)
            if (got[2], got[3], got[4]) != (fpr, k, m):
                fail("reloaded_footer_gives_the_same_geometry", n=n, p=p, original=[fpr, k, m], reloaded=list(got[2:]))
            got = BloomFilter._parse_footer(BloomFilter._FOOTER_STRUCT_BE, _struct.pack(">QQf", n, 0, fpr))
            if (got[2], got[3], got[4]) != (fpr, k, m):
                fail("reloaded_hex_footer_gives_the_same_geometry", n=n, p=p, original=[fpr, k, m], reloaded=list(got[2:]))
    # count-min: confidence / error rate
    confs = [c for c in rs if c < 1][:: (6 if tier == "quick" else 2)]
    errs = sorted(set(rs[:: (5 if tier == "quick" else 2)]) | {2.0 / w for w in range(2, 200)} |
                  {math.nextafter(2.0 / w, 0) for w in range(2, 200)} | {math.nextafter(2.0 / w, 1) for w in range(2, 200)})
    for e in errs:
        if not (0 < e < 1):
            continue
        w = math.ceil(2 / e)
        if w > 5_000_000:
            continue
        for c in confs[:: max(1, len(confs) // (15 if tier == "quick" else 60))]:
            cases += 1
            d = max(math.ceil((-1 * math.log(1 - c)) / 0.6931471805599453), 1)
            if w * d > 20_000_000:
                continue
            s = CountMinSketch(confidence=c, error_rate=e)
            if (s.width, s.depth) != (w, d):
                fail("sketch_geometry_formula", confidence=c, error_rate=e, width=s.width, depth=s.depth)
            if 2 / s.width > e:
                fail("sketch_width_meets_error_rate", error_rate=e, width=s.width, excess_ulps=(2 / s.width - e) / ulp(e))
            if 1 - 2.0 ** -s.depth < c:
                fail("sketch_depth_meets_confidence", confidence=c, depth=s.depth,
                     excess_ulps=(c - (1 - 2.0 ** -s.depth)) / ulp(c))
            s2 = CountMinSketch(confidence=c, error_rate=e)
            if (s2.width, s2.depth) != (s.width, s.depth):
                fail("sketch_geometry_stable", confidence=c, error_rate=e)
    # cuckoo: fingerprint bits from the error rate
    for bs in range(1, 9):
        for e in rs[:: (7 if tier == "quick" else 1)] + [2.0 * bs / 2 ** b for b in range(2, 33)] + \
                [math.nextafter(2.0 * bs / 2 ** b, 0) for b in range(2, 33)]:
            if not (0 < e < 1):
                continue
            cases += 1
            bits_needed = math.log2(1.0 / e) + math.log2(bs) + 1
            if bits_needed > 32:
                continue
            c = CuckooFilter.init_error_rate(e, capacity=2, bucket_size=bs)
            bits = c.fingerprint_size_bits
            if bits != int(math.ceil(bits_needed)):
                fail("cuckoo_bits_formula", error_rate=e, bucket_size=bs, bits=bits)
            if 2.0 * bs / 2 ** bits > e:
                fail("cuckoo_bits_meet_error_rate", error_rate=e, bucket_size=bs, bits=bits,
                     excess_ulps=(2.0 * bs / 2 ** bits - e) / ulp(e))
    return {"cases": cases, "failures": failures, "failures_per_clause": per_clause, "worst_bloom_ratio": worst_bloom,
            "bound": f"{len(ns)} element counts x {len(rs)} rates (Bloom); {len(errs)} error rates x confidences (count-min); "
                     "bucket sizes 1..8 x rates incl. exact powers of two and their float neighbours (cuckoo)"}
