"""Bounded stand-in shared by several properties: random operation histories on small structures, run natively
against the REAL code and compared with an independent reference (Python sets / dicts / an independent reader and
writer of the documented layouts).  Used only where the contracts under proof do not reach (loaders of the cuckoo,
expanding and counting formats, the hex / path channels, interleaved removals of colliding keys, counting cuckoo);
labelled bounded in evidence, never counted as proved.

run(tier, seed, prop) explores the histories relevant for property `prop`."""
from __future__ import annotations

import io
import math
import os
import random
import struct
import tempfile

from probables import (BloomFilter, BloomFilterOnDisk, CountingBloomFilter, CountingCuckooFilter, CountMeanMinSketch,
                       CountMeanSketch, CountMinSketch, CuckooFilter, ExpandingBloomFilter, HeavyHitters,
                       RotatingBloomFilter, StreamThreshold)
from probables.exceptions import CuckooFilterFullError
from probables.hashes import default_fnv_1a, default_md5, default_sha256, fnv_1a


# ---- independent description of the documented algorithms / layouts (written from the documentation) ---------------
def ref_fnv1a64(data: bytes, seed: int) -> int:
    h = (14695981039346656037 + 31 * seed) % 2**64
    for b in data:
        h = ((h ^ b) * 1099511628211) % 2**64
    return h


def ref_positions(key, k, m):
    data = key.encode("utf-8") if isinstance(key, str) else key
    return [ref_fnv1a64(data, i) % m for i in range(k)]


def ref_bloom_geometry(n, p):
    p32 = struct.unpack("f", struct.pack("f", p))[0]
    m = math.ceil((-n * math.log(p32)) / 0.4804530139182)
    k = int(round(0.6931471805599453 * m / n))
    return m, k, p32


def ref_bloom_file(n, p, keys):
    """independent writer: the documented C layout of a Bloom filter holding `keys` (ASCII)"""
    m, k, p32 = ref_bloom_geometry(n, p)
    cells = bytearray(math.ceil(m / 8))
    for key in keys:
        for pos in ref_positions(key, k, m):
            cells[pos // 8] |= 1 << (pos % 8)
    return bytes(cells) + struct.pack("<QQf", n, len(keys), p32)


def ref_bloom_lookup(blob, key):
    """independent reader of the documented C layout"""
    n, added, p32 = struct.unpack("<QQf", blob[-20:])
    m, k, _ = ref_bloom_geometry(n, p32)
    return all(blob[pos // 8] & (1 << (pos % 8)) for pos in ref_positions(key, k, m))


def ref_cms_lookup(blob, key, mode="min"):
    w, d, total = struct.unpack("<IIq", blob[-16:])
    cells = struct.unpack(f"<{w * d}i", blob[: 4 * w * d])
    data = key.encode("utf-8") if isinstance(key, str) else key
    vals = sorted(cells[(ref_fnv1a64(data, i) % w) + i * w] for i in range(d))
    if mode == "min":
        return vals[0]
    if mode == "mean":
        return sum(vals) // d
    if vals[0] == 0 and vals[-1] == 0:
        return 0
    mm = sorted(v - (total - v) // (w - 1) for v in vals)
    return (mm[d // 2] + mm[d // 2 - 1]) // 2 if d % 2 == 0 else mm[d // 2]


KEYS = [f"k{i}" for i in range(24)] + ["", "a", "test", "this is a test"]


class Fail(Exception):
    pass


def _fail(failures, prop, clause, detail, history):
    if len(failures) < 30:
        failures.append({"obligation": f"B.histories.{prop}.{clause}", "clause": clause, "detail": str(detail)[:300],
                         "history": [list(h) if isinstance(h, tuple) else h for h in history][-40:]})


def small_bloom_params(rnd):
    return rnd.choice([(1, 0.5), (2, 0.3), (3, 0.2), (5, 0.1), (10, 0.05), (7, 0.01)])


# ---- C01 / C05 / C06 : Bloom family over every channel -------------------------------------------------------------------
def bloom_histories(prop, tier, rnd, failures, stats, tmp):
    rounds = 60 if tier == "quick" else 1500
    for rd in range(rounds):
        n, p = small_bloom_params(rnd)
        hf = rnd.choice([None, default_md5, default_sha256])
        kind = rnd.choice(["mem", "disk", "expanding", "counting", "rotating"])
        hist = [("new", kind, n, p, getattr(hf, "__name__", None))]
        path = os.path.join(tmp, f"b{rd}.blm")
        if kind == "mem":
            f = BloomFilter(n, p, hash_function=hf)
        elif kind == "disk":
            f = BloomFilterOnDisk(path, n, p, hash_function=hf)
        elif kind == "expanding":
            f = ExpandingBloomFilter(n, p, hash_function=hf)
        elif kind == "rotating":
            f = RotatingBloomFilter(n, p, max_queue_size=rnd.randrange(1, 4), hash_function=hf)
        else:
            f = CountingBloomFilter(n, p, hash_function=hf)
        added = []
        recent = []
        for _ in range(rnd.randrange(1, 25)):
            stats["steps"] += 1
            op = rnd.random()
            if op < 0.6:
                key = rnd.choice(KEYS)
                if rnd.random() < 0.3:
                    key = key.encode()
                f.add(key)
                added.append(key)
                hist.append(("add", repr(key)))
            elif op < 0.7 and kind in ("expanding", "rotating"):
                if kind == "rotating" and rnd.random() < 0.4 and len(f._blooms) > 1:
                    f.pop()
                    hist.append(("pop",))
                else:
                    f.push()
                    hist.append(("push",))
            elif op < 0.85:
                f2 = reload_bloom(f, kind, hf, rnd, path, tmp, hist)
                if f2 is not None:
                    compare_bloom(prop, f, f2, kind, added, failures, hist)
                    if kind != "disk":
                        f = f2
                    else:
                        f = f2
            else:
                if kind in ("mem", "counting") and added:
                    g = type(f)(n, p, hash_function=hf)
                    extra = rnd.choice(KEYS)
                    g.add(extra)
                    u = f.union(g)
                    hist.append(("union", extra))
                    if u is None:
                        _fail(failures, prop, "union_of_compatible_filters", "None", hist)
                    else:
                        for k in added + [extra]:
                            if not u.check(k):
                                _fail(failures, prop, "union_reports_keys_of_both", k, hist)
            if kind != "rotating":
                for k in added:
                    if not f.check(k):
                        _fail(failures, prop, "added_key_reported_present", repr(k), hist)
                        break
            if kind != "disk":
                # all channels of one structure carry the same payload, at every point of the history
                blob = bytes(f)
                buf = io.BytesIO()
                f.export(buf)
                if buf.getvalue() != blob:
                    _fail(failures, prop, "channels_carry_the_same_payload", "bytes() vs export(file object)", hist)
                if rnd.random() < 0.3:
                    p3 = os.path.join(tmp, "same.bin")
                    f.export(p3)
                    if open(p3, "rb").read() != blob:
                        _fail(failures, prop, "channels_carry_the_same_payload", "bytes() vs export(path)", hist)
        if kind == "mem" and hf is None and all(isinstance(k, str) and k.isascii() for k in added):
            # C06: independent writer / reader
            distinct = added
            blob = bytes(f)
            ref = ref_bloom_file(n, p, distinct)
            if blob[:-20] != ref[:-20] or blob[-20:-12] != ref[-20:-12] or blob[-4:] != ref[-4:]:
                _fail(failures, prop, "export_equals_independent_writer", "cells or footer differ", hist)
            for k in KEYS:
                if ref_bloom_lookup(blob, k) != f.check(k):
                    _fail(failures, prop, "independent_reader_agrees", k, hist)
        if kind == "disk":
            f.close()


def reload_bloom(f, kind, hf, rnd, path, tmp, hist):
    if kind == "mem":
        ch = rnd.choice(["bytes", "file", "hex", "fileobj"])
        hist.append(("reload", ch))
        if ch == "bytes":
            return BloomFilter.frombytes(bytes(f), hash_function=hf)
        if ch == "hex":
            return BloomFilter(hex_string=f.export_hex(), hash_function=hf)
        p2 = os.path.join(tmp, "x.blm")
        if ch == "file":
            f.export(p2)
        else:
            with open(p2, "wb") as fp:
                f.export(fp)
        return BloomFilter(filepath=p2, hash_function=hf)
    if kind == "counting":
        ch = rnd.choice(["bytes", "file", "hex"])
        hist.append(("reload", ch))
        if ch == "bytes":
            return CountingBloomFilter.frombytes(bytes(f), hash_function=hf)
        if ch == "hex":
            return CountingBloomFilter(hex_string=f.export_hex(), hash_function=hf)
        p2 = os.path.join(tmp, "x.cbm")
        f.export(p2)
        return CountingBloomFilter(filepath=p2, hash_function=hf)
    if kind == "expanding":
        ch = rnd.choice(["bytes", "file"])
        hist.append(("reload", ch))
        if ch == "bytes":
            return ExpandingBloomFilter.frombytes(bytes(f), hash_function=hf)
        p2 = os.path.join(tmp, "x.ebf")
        f.export(p2)
        return ExpandingBloomFilter(filepath=p2, hash_function=hf)
    if kind == "rotating":
        ch = rnd.choice(["bytes", "file"])
        hist.append(("reload", ch))
        if ch == "bytes":
            return RotatingBloomFilter.frombytes(bytes(f), max_queue_size=f.max_queue_size, hash_function=hf)
        p2 = os.path.join(tmp, "x.rbf")
        f.export(p2)
        return RotatingBloomFilter(filepath=p2, max_queue_size=f.max_queue_size, hash_function=hf)
    if kind == "disk":
        hist.append(("close+reopen",))
        cwd = os.getcwd()
        f.close()
        os.chdir(rnd.choice([cwd, "/", tmp]))
        try:
            return BloomFilterOnDisk(path, hash_function=hf)
        finally:
            os.chdir(cwd)
    return None


def compare_bloom(prop, a, b, kind, added, failures, hist):
    if kind == "disk":
        if b.elements_added != len(added):
            _fail(failures, prop, "reopened_count", f"{b.elements_added} vs {len(added)}", hist)
        for k in added:
            if not b.check(k):
                _fail(failures, prop, "reopened_reports_added_keys", repr(k), hist)
        return
    if bytes(a) != bytes(b):
        _fail(failures, prop, "reexport_is_byte_identical", "", hist)
    if kind in ("expanding", "rotating") and (a.expansions != b.expansions or len(a._blooms) != len(b._blooms)):
        _fail(failures, prop, "same_number_of_sub_filters", f"{a.expansions} vs {b.expansions}", hist)
    if a.elements_added != b.elements_added:
        _fail(failures, prop, "same_element_count", f"{a.elements_added} vs {b.elements_added}", hist)
    for k in KEYS:
        if a.check(k) != b.check(k):
            _fail(failures, prop, "same_answers", k, hist)


# ---- C02 / C05 / C06 / C16 / C17 : count-min family ---------------------------------------------------------------------------
def sketch_histories(prop, tier, rnd, failures, stats, tmp):
    rounds = 80 if tier == "quick" else 2000
    for rd in range(rounds):
        w, d = rnd.randrange(1, 4), rnd.randrange(1, 4)
        cls = rnd.choice([CountMinSketch, CountMeanSketch, CountMeanMinSketch, StreamThreshold, HeavyHitters])
        if cls is CountMeanMinSketch:
            w = max(w, 2)
        kw = {}
        if cls is StreamThreshold:
            kw["threshold"] = rnd.randrange(1, 6)
        if cls is HeavyHitters:
            kw["num_hitters"] = rnd.randrange(1, 4)
        s = cls(width=w, depth=d, **kw)
        hist = [("new", cls.__name__, w, d, kw)]
        true = {}
        last = {}
        for _ in range(rnd.randrange(1, 30)):
            stats["steps"] += 1
            key = rnd.choice(KEYS[:8])
            if rnd.random() < 0.7 or cls is HeavyHitters or true.get(key, 0) == 0:
                n = rnd.choice([1, 1, 2, 5])
                r = s.add(key, n)
                true[key] = true.get(key, 0) + n
                hist.append(("add", key, n))
            else:
                n = rnd.randrange(1, true[key] + 1)
                r = s.remove(key, n)
                true[key] -= n
                hist.append(("remove", key, n))
            last[key] = r
            if r != s.check(key):
                _fail(failures, prop, "returned_value_is_what_check_reports", key, hist)
            if cls in (CountMinSketch, StreamThreshold, HeavyHitters):
                total = sum(true.values())
                if s.elements_added != total:
                    _fail(failures, prop, "elements_added_is_net_total", f"{s.elements_added} vs {total}", hist)
                for k, c in true.items():
                    e = s.check(k)
                    if e < c or e > total:
                        _fail(failures, prop, "estimate_between_true_count_and_total", f"{k}: {c} <= {e} <= {total}", hist)
                        break
            if cls is StreamThreshold:
                want = {k: v for k, v in last.items() if v >= s.threshold}
                if dict(s.meets_threshold) != want:
                    _fail(failures, prop, "threshold_table_is_exact", f"{dict(s.meets_threshold)} vs {want}", hist)
            if cls is HeavyHitters:
                hh = dict(s.heavy_hitters)
                if len(hh) != min(s.number_heavy_hitters, len(last)):
                    _fail(failures, prop, "tracks_min_of_limit_and_seen", f"{hh}", hist)
                if any(hh[k] != last[k] for k in hh):
                    _fail(failures, prop, "tracked_value_is_most_recent_estimate", f"{hh} {last}", hist)
                if hh and any(last[k] > min(hh.values()) for k in last if k not in hh):
                    _fail(failures, prop, "no_untracked_key_is_heavier", f"{hh} {last}", hist)
        # round trip on every channel
        blob = bytes(s)
        p2 = os.path.join(tmp, "x.cms")
        s.export(p2)
        if open(p2, "rb").read() != blob:
            _fail(failures, prop, "channels_carry_the_same_payload", "", hist)
        extra = {k: v for k, v in kw.items()}
        for how in ("bytes", "file"):
            t = cls.frombytes(blob, **extra) if how == "bytes" else cls(filepath=p2, **extra)
            if bytes(t) != blob or t.elements_added != s.elements_added or (t.width, t.depth) != (s.width, s.depth):
                _fail(failures, prop, "reload_reproduces_the_sketch", how, hist)
            for k in KEYS[:8]:
                if t.check(k) != s.check(k):
                    _fail(failures, prop, "reloaded_sketch_answers_identically", f"{how} {k}", hist)
                    break
        mode = {"CountMeanSketch": "mean", "CountMeanMinSketch": "mean-min"}.get(cls.__name__, "min")
        for k in KEYS[:8]:
            if ref_cms_lookup(blob, k, mode) != s.check(k):
                _fail(failures, prop, "independent_reader_agrees", f"{k} {mode}", hist)
                break


# ---- C03 / C05 / C08 / C14 / C15 : cuckoo family --------------------------------------------------------------------------------
def cuckoo_ok(f, counting):
    cap = f.capacity
    seen = set()
    total = 0
    for b, bucket in enumerate(f.buckets):
        if len(bucket) > f.bucket_size:
            return "bucket longer than bucket_size"
        for x in bucket:
            fp = x.finger if counting else x
            if counting and x.count <= 0:
                return "bin with count 0"
            total += x.count if counting else 1
            i1, i2 = f._indicies_from_fingerprint(fp)
            if b not in (i1, i2):
                return "fingerprint outside its candidate buckets"
            if fp in seen:
                return "fingerprint stored twice"
            seen.add(fp)
    if f.elements_added != total:
        return f"elements_added {f.elements_added} != {total}"
    if counting and f.unique_elements != len(seen):
        return "unique_elements != number of bins"
    return None


def cuckoo_histories(prop, tier, rnd, failures, stats, tmp):
    rounds = 120 if tier == "quick" else 4000
    for rd in range(rounds):
        counting = rnd.random() < 0.5
        cls = CountingCuckooFilter if counting else CuckooFilter
        cap, bs = rnd.randrange(1, 5), rnd.randrange(1, 3)
        auto = rnd.random() < 0.5
        f = cls(capacity=cap, bucket_size=bs, max_swaps=rnd.randrange(1, 6), auto_expand=auto, finger_size=rnd.choice([1, 2, 4]))
        hist = [("new", cls.__name__, cap, bs, auto)]
        model = {}
        for _ in range(rnd.randrange(1, 30)):
            stats["steps"] += 1
            key = rnd.choice(KEYS[:16])
            fp = f._generate_fingerprint_info(key)[2]
            op = rnd.random()
            try:
                if op < 0.6:
                    hist.append(("add", key))
                    f.add(key)
                    model[fp] = model.get(fp, 0) + 1 if counting else 1
                elif op < 0.85:
                    hist.append(("remove", key))
                    r = f.remove(key)
                    if r != (fp in model):
                        _fail(failures, prop, "remove_says_whether_present", key, hist)
                    if fp in model:
                        model[fp] -= 1
                        if model[fp] == 0 or not counting:
                            del model[fp]
                else:
                    hist.append(("expand",))
                    c0 = f.capacity
                    f.expand()
                    if f.capacity != c0 * f.expansion_rate:
                        _fail(failures, prop, "capacity_multiplied_by_expansion_rate", f"{c0}->{f.capacity}", hist)
            except CuckooFilterFullError:
                hist.append(("full",))
            bad = cuckoo_ok(f, counting)
            if bad:
                _fail(failures, prop, "table_well_formed", bad, hist)
                break
            for k in KEYS[:16]:
                kfp = f._generate_fingerprint_info(k)[2]
                got = f.check(k)
                want = model.get(kfp, 0) if counting else (kfp in model)
                if got != want:
                    _fail(failures, prop, "check_is_exact_on_fingerprints", f"{k}: {got} vs {want}", hist)
                    break
        # round trip (fingerprint 0 is the empty-slot marker of the format: known limitation, excluded)
        if 0 in model:
            continue
        blob = bytes(f)
        p2 = os.path.join(tmp, "x.cko")
        f.export(p2)
        if open(p2, "rb").read() != blob:
            _fail(failures, prop, "channels_carry_the_same_payload", "", hist)
        for how in ("bytes", "file"):
            g = cls.frombytes(blob) if how == "bytes" else cls(filepath=p2)
            g.fingerprint_size = f.fingerprint_size
            if bytes(g) != blob or g.elements_added != f.elements_added or g.capacity != f.capacity:
                _fail(failures, prop, "reload_reproduces_the_filter", how, hist)
            bad = cuckoo_ok(g, counting)
            if bad:
                _fail(failures, prop, "loaded_table_well_formed", bad, hist)


# ---- C08 : counting Bloom with interleaved removals ------------------------------------------------------------------------------
def counting_histories(prop, tier, rnd, failures, stats, tmp):
    rounds = 100 if tier == "quick" else 3000
    for rd in range(rounds):
        n, p = small_bloom_params(rnd)
        f = CountingBloomFilter(n, p)
        hist = [("new", n, p)]
        true = {}
        snaps = []
        for _ in range(rnd.randrange(1, 30)):
            stats["steps"] += 1
            key = rnd.choice(KEYS[:10])
            if rnd.random() < 0.6 or true.get(key, 0) == 0:
                cnt = rnd.choice([1, 2, 3])
                before = bytes(f)
                f.add(key, cnt)
                true[key] = true.get(key, 0) + cnt
                hist.append(("add", key, cnt))
                if rnd.random() < 0.3:
                    f.remove(key, cnt)
                    true[key] -= cnt
                    hist.append(("remove", key, cnt))
                    if bytes(f) != before:
                        _fail(failures, prop, "remove_undoes_add_exactly", key, hist)
            else:
                cnt = rnd.randrange(1, true[key] + 1)
                f.remove(key, cnt)
                true[key] -= cnt
                hist.append(("remove", key, cnt))
            for k, c in true.items():
                if f.check(k) < c:
                    _fail(failures, prop, "count_never_below_true_count", f"{k}: {f.check(k)} < {c}", hist)
                    break
            if f.elements_added != sum(true.values()):
                _fail(failures, prop, "elements_added_is_net_total", f"{f.elements_added}", hist)
        absent = [k for k in KEYS if f.check(k) == 0]
        if absent:
            before = bytes(f)
            if f.remove(absent[0]) != 0 or bytes(f) != before:
                _fail(failures, prop, "removing_absent_key_changes_nothing", absent[0], hist)


def cuckoo_zero_fingerprint(prop, tier, rnd, failures, stats, tmp):
    """the format uses 0 as the empty-slot marker: a stored fingerprint 0 does not survive a reload"""
    for cls in (CuckooFilter, CountingCuckooFilter):
        stats["steps"] += 1
        f = cls(capacity=4, bucket_size=2, finger_size=1, hash_function=lambda key, *a: 256 if key == "zero" else fnv_1a(key))
        f.add("zero")
        f.add("k1")
        g = cls.frombytes(bytes(f), hash_function=lambda key, *a: 256 if key == "zero" else fnv_1a(key))
        g.fingerprint_size = 1
        if bool(g.check("zero")) != bool(f.check("zero")):
            failures.append({"obligation": f"B.histories.{prop}.fingerprint_zero_survives_reload",
                             "clause": "fingerprint_zero_survives_reload", "fingerprint_zero_stored": True,
                             "detail": f"{cls.__name__}: key with fingerprint 0 present before, absent after reload",
                             "history": [["new", cls.__name__, 4, 2], ["add", "zero"], ["add", "k1"], ["reload", "bytes"]]})


def expanding_full_boundary(prop, tier, rnd, failures, stats, tmp):
    """export taken exactly when the newest sub-filter is full (I a multiple of est_elements), every channel; and
    geometries whose bit count is a multiple of 8"""
    for cls in (ExpandingBloomFilter, RotatingBloomFilter):
        for n, p in ((1, 0.5), (2, 0.3), (3, 0.2), (5, 0.1), (10, 0.01), (10, 0.05), (5, 0.05)):
            for mult in (1, 2, 3):
                extra = {"max_queue_size": 4} if cls is RotatingBloomFilter else {}
                f = cls(n, p, **extra)
                hist = [("new", cls.__name__, n, p)]
                i = 0
                while f.elements_added < n * mult and i < 400:
                    f.add(f"key-{i}")
                    i += 1
                hist.append(("add distinct keys until elements_added ==", n * mult))
                stats["steps"] += 1
                blob = bytes(f)
                p2 = os.path.join(tmp, "full.ebf")
                f.export(p2)
                for how in ("bytes", "file"):
                    g = cls.frombytes(blob, **extra) if how == "bytes" else cls(filepath=p2, **extra)
                    if g.expansions != f.expansions or len(g._blooms) != len(f._blooms):
                        _fail(failures, prop, "same_number_of_sub_filters", f"{how}: {g.expansions} vs {f.expansions}", hist)
                    if bytes(g) != blob:
                        _fail(failures, prop, "reexport_is_byte_identical", how, hist)
                    if g.elements_added != f.elements_added:
                        _fail(failures, prop, "same_element_count", how, hist)
                    for k in range(i):
                        if f.check(f"key-{k}") != g.check(f"key-{k}"):
                            _fail(failures, prop, "same_answers", f"{how}: key-{k}", hist)
                            break


def cuckoo_error_rate_roundtrip(prop, tier, rnd, failures, stats, tmp):
    """filters sized by error rate with every bucket size 1..6: the re-supplied error rate must give back the same
    fingerprint width and the same answers on the bytes and the file channel"""
    for cls in (CuckooFilter, CountingCuckooFilter):
        for bs in range(1, 7):
            for er in (0.2, 0.05, 0.01, 0.003):
                f = cls.init_error_rate(er, capacity=8, bucket_size=bs, max_swaps=20)
                hist = [("init_error_rate", cls.__name__, er, 8, bs)]
                keys = [f"m{i}" for i in range(rnd.randrange(1, 12))]
                stored = []
                for k in keys:
                    if f._generate_fingerprint_info(k)[2] == 0:
                        continue            # the format cannot store fingerprint 0 (known finding)
                    f.add(k)
                    stored.append(k)
                stats["steps"] += 1
                blob = bytes(f)
                p2 = os.path.join(tmp, "er.cko")
                f.export(p2)
                for how in ("bytes", "file"):
                    try:
                        g = cls.frombytes(blob, error_rate=er) if how == "bytes" else cls.load_error_rate(er, p2)
                    except Exception as e:   # noqa: BLE001
                        _fail(failures, prop, "reload_reproduces_the_filter", f"{how}: {type(e).__name__}: {e}", hist)
                        continue
                    if g.fingerprint_size_bits != f.fingerprint_size_bits or g.bucket_size != f.bucket_size:
                        _fail(failures, prop, "resupplied_error_rate_gives_the_same_fingerprint_width",
                              f"{how}: {g.fingerprint_size_bits} vs {f.fingerprint_size_bits}", hist)
                    if bytes(g) != blob or g.elements_added != f.elements_added:
                        _fail(failures, prop, "reload_reproduces_the_filter", how, hist)
                    for k in stored + ["absent-1", "absent-2"]:
                        if bool(g.check(k)) != bool(f.check(k)):
                            _fail(failures, prop, "same_answers", f"{how}: {k}", hist)
                            break


def combine_independence(prop, tier, rnd, failures, stats, tmp):
    """C12 / C13: union / intersection / join give the structure fed both streams, leave the operands as they were, and
    share no storage with them: operations on one of the three afterwards are invisible in the others.  The operands
    include structures whose element counter is 0 although cells are set (add then remove; results of intersection)."""
    from probables import BloomFilter, CountingBloomFilter
    rounds = 60 if tier == "quick" else 1500

    def st(x):      # (a saturated union has element count -1, the documented sentinel, and cannot be exported: not compared via bytes)
        return (x.bloom.tobytes() if hasattr(x.bloom, "tobytes") else bytes(x.bloom), x.elements_added)
    for rd in range(rounds):
        stats["steps"] += 1
        if rd % 2 == 0:
            n, p = small_bloom_params(rnd)
            cls = rnd.choice([BloomFilter, CountingBloomFilter])
            a, b, both = cls(n, p), cls(n, p), cls(n, p)
            ka = [rnd.choice(KEYS) for _ in range(rnd.randrange(0, 4))]
            kb = [rnd.choice(KEYS) for _ in range(rnd.randrange(0, 4))]
            for k in ka:
                a.add(k); both.add(k)
            for k in kb:
                b.add(k); both.add(k)
            hist = [("new", cls.__name__, n, p), ("a.add", ka), ("b.add", kb)]
            if cls is CountingBloomFilter and ka and rnd.random() < 0.5:
                a.remove(ka[0]); a.add(ka[0])
            ia, ib = st(a), st(b)
            for op in ("union", "intersection"):
                r = getattr(a, op)(b)
                hist2 = hist + [(op,)]
                if r is None:
                    _fail(failures, prop, "compatible_operands_combine", f"{op} of two filters of the same geometry gave None", hist2)
                    continue
                if st(a) != ia or st(b) != ib:
                    _fail(failures, prop, "operands_unchanged", f"{op} changed an operand", hist2)
                if op == "union" and st(r)[0] != st(both)[0]:
                    _fail(failures, prop, "union_equals_filter_fed_both_streams", "cells of the union differ from the filter fed both streams", hist2)
                fresh = rnd.choice(KEYS)
                before = st(r)
                a.add(fresh); b.add(fresh)
                if st(r) != before:
                    _fail(failures, prop, "result_shares_no_storage_with_operands", f"adding to an operand after {op} changed the result", hist2 + [("add", fresh)])
                ia, ib = st(a), st(b)
                r.add(rnd.choice(KEYS))
                if st(a) != ia or st(b) != ib:
                    _fail(failures, prop, "result_shares_no_storage_with_operands", f"adding to the result of {op} changed an operand", hist2)
        else:
            w, d = rnd.randrange(1, 4), rnd.randrange(1, 4)
            a, b, both = CountMinSketch(width=w, depth=d), CountMinSketch(width=w, depth=d), CountMinSketch(width=w, depth=d)
            hist = [("new", "CountMinSketch", w, d)]
            shape = rnd.randrange(3)          # 0: a untouched, 1: a has total 0 but cells set, 2: a populated
            if shape == 1:
                a.add(KEYS[0], 2); a.remove(KEYS[1], 2)
                both.add(KEYS[0], 2); both.remove(KEYS[1], 2)
                hist.append(("a.add/remove", KEYS[0], KEYS[1]))
            elif shape == 2:
                for k in [rnd.choice(KEYS[:6]) for _ in range(rnd.randrange(1, 4))]:
                    a.add(k); both.add(k)
            kb = [rnd.choice(KEYS[:6]) for _ in range(rnd.randrange(1, 4))]
            for k in kb:
                b.add(k); both.add(k)
            hist.append(("b.add", kb))
            ib = bytes(b)
            a.join(b)
            hist.append(("a.join(b)",))
            if bytes(b) != ib:
                _fail(failures, prop, "operands_unchanged", "join changed its argument", hist)
            if bytes(a) != bytes(both):
                _fail(failures, prop, "join_equals_sketch_fed_both_streams", "the joined sketch differs from the sketch fed both streams", hist)
            ia = bytes(a)
            b.add(KEYS[7], 3)
            if bytes(a) != ia:
                _fail(failures, prop, "result_shares_no_storage_with_operands", "adding to the argument after join changed the joined sketch", hist)
            ib = bytes(b)
            a.add(KEYS[8], 2); a.remove(KEYS[8], 1)
            if bytes(b) != ib:
                _fail(failures, prop, "result_shares_no_storage_with_operands", "operating on the joined sketch changed the argument of join", hist)


SUITES = {
    "C01": [bloom_histories, expanding_full_boundary], "C02": [sketch_histories], "C03": [cuckoo_histories],
    "C05": [bloom_histories, sketch_histories, cuckoo_histories, cuckoo_zero_fingerprint, expanding_full_boundary,
            cuckoo_error_rate_roundtrip],
    "C06": [bloom_histories, sketch_histories], "C09": [expanding_full_boundary],
    "C08": [counting_histories, cuckoo_histories], "C14": [bloom_histories, sketch_histories, cuckoo_histories, counting_histories],
    "C15": [cuckoo_histories], "C17": [sketch_histories], "C16": [sketch_histories],
    "C12": [combine_independence], "C13": [combine_independence],
}


def run(tier, seed, prop="C05"):
    rnd = random.Random(seed)
    failures = []
    stats = {"steps": 0}
    cwd = os.getcwd()
    with tempfile.TemporaryDirectory(prefix="pyvc-hist-") as tmp:
        try:
            for suite in SUITES.get(prop, []):
                suite(prop, tier, rnd, failures, stats, tmp)
        finally:
            os.chdir(cwd)
    return {"cases": stats["steps"], "failures": failures,
            "bound": "random histories of <= 30 operations on structures with <= 63 bits / width,depth <= 3 / capacity <= 4, "
                     "keys from a 28-key universe, every export/load channel; reference = python set/dict and an "
                     "independent reader/writer of the documented layouts"}
