"""C04 bounded stand-in: exhaustive breadth-first exploration of ALL reachable quotient-filter layouts for a small
quotient size and a small remainder alphabet, under every add_alt / remove_alt from the empty filter, comparing the
real QuotientFilter after every step against a mathematical set:

  * check_alt(h) for every hash of the universe == membership       * get_hashes() == the set, no duplicates
  * elements_added == |set|                                            * every call returns within a time budget
  * resize (up and down) and merge of every reached state (sampled in quick) equal the set operation

Bound: q = 3 (8 slots), remainders drawn from an alphabet of R values (quick R=2, thorough R=3 and q=4/R=2),
auto_expand off (table may fill completely) and on.  Labelled bounded in evidence; never counted as proved."""
from __future__ import annotations

import copy
import signal
import time

from probables import QuotientFilter
from probables.exceptions import QuotientFilterError


class Hang(Exception):
    pass


def _alarm(signum, frame):
    raise Hang()


def timed(fn, *a, budget=2.0):
    signal.signal(signal.SIGALRM, _alarm)
    signal.setitimer(signal.ITIMER_REAL, budget)
    try:
        return fn(*a)
    finally:
        signal.setitimer(signal.ITIMER_REAL, 0)


def snapshot(qf):
    return (qf._q, tuple(qf._filter), tuple(qf._is_occupied.bitarray), tuple(qf._is_continuation.bitarray),
            tuple(qf._is_shifted.bitarray), qf._elements_added)


def universe(q, rems):
    r = 32 - q
    return [(quo << r) | rem for quo in range(1 << q) for rem in rems]


def explore(q, rems, auto, max_states, deadline, failures, stats, was_full_ok):
    uni = universe(q, rems)
    start = QuotientFilter(quotient=q, auto_expand=auto)
    seen = {(snapshot(start), frozenset(), False): None}
    frontier = [(start, frozenset(), False, ())]
    while frontier and len(seen) < max_states and time.time() < deadline:
        nxt = []
        for qf, model, was_full, hist in frontier:
            for op in ("add", "rm"):
                for h in uni:
                    if op == "rm" and h not in model:
                        # removing an absent hash must change nothing
                        pass
                    stats["steps"] += 1
                    g = copy.deepcopy(qf)
                    m2 = set(model)
                    step = (op, h >> (32 - q), h & ((1 << (32 - q)) - 1))
                    try:
                        if op == "add":
                            if auto is False and len(model) == (1 << g._q) and h not in model:
                                expect_err = True
                            else:
                                expect_err = False
                            timed(g.add_alt, h)
                            m2.add(h)
                        else:
                            timed(g.remove_alt, h)
                            m2.discard(h)
                    except Hang:
                        fail(failures, "terminates", hist + (step,), "call did not return", was_full, q)
                        continue
                    except QuotientFilterError:
                        if op == "add" and auto is False and len(model) >= (1 << qf._q):
                            continue           # documented: the table is full
                        fail(failures, "unexpected_QuotientFilterError", hist + (step,), "", was_full, q)
                        continue
                    except Exception as e:   # noqa: BLE001
                        fail(failures, f"unexpected_{type(e).__name__}", hist + (step,), str(e), was_full, q)
                        continue
                    full_now = was_full or len(m2) >= (1 << g._q)
                    ok = verify_state(g, m2, hist + (step,), failures, full_now, q, uni)
                    if not ok:
                        continue
                    key = (snapshot(g), frozenset(m2), full_now)
                    if key not in seen:
                        seen[key] = None
                        if len(hist) < stats["max_depth"]:
                            nxt.append((g, frozenset(m2), full_now, hist + (step,)))
        frontier = nxt
    stats["states"] += len(seen)
    stats["exhausted"] = stats.get("exhausted", True) and not frontier


def fail(failures, clause, hist, observed, was_full, q):
    if len(failures) < 40:
        failures.append({"obligation": "B.qf_layouts." + clause, "clause": clause, "history": list(hist),
                         "observed": observed, "table_was_completely_full": bool(was_full), "quotient": q})


def verify_state(g, model, hist, failures, was_full, q, uni):
    ok = True
    try:
        for h in uni if len(uni) <= 64 else list(model) + uni[:32]:
            if timed(g.check_alt, h) != (h in model):
                fail(failures, "check_is_set_membership", hist, f"check_alt({h}) != {h in model}", was_full, q)
                ok = False
                break
        got = timed(g.get_hashes)
        if sorted(got) != sorted(model):
            fail(failures, "stored_hashes_are_exactly_the_set", hist, f"{sorted(got)[:6]} vs {sorted(model)[:6]}", was_full, q)
            ok = False
        if g.elements_added != len(model):
            fail(failures, "elements_added_is_the_set_size", hist, f"{g.elements_added} vs {len(model)}", was_full, q)
            ok = False
    except Hang:
        fail(failures, "terminates", hist, "query did not return", was_full, q)
        ok = False
    except Exception as e:   # noqa: BLE001
        fail(failures, f"unexpected_{type(e).__name__}", hist, f"in a query: {e}", was_full, q)
        ok = False
    return ok


def resize_merge_checks(q, rems, failures, stats, rnd, n):
    uni = universe(q, rems)
    for _ in range(n):
        auto = rnd.random() < 0.5
        a = QuotientFilter(quotient=q, auto_expand=auto)
        ma = set()
        for h in rnd.sample(uni, rnd.randrange(0, min(len(uni), (1 << q) - 1))):
            a.add_alt(h)
            ma.add(h)
        hist = tuple(("add", h >> (32 - q), h & ((1 << (32 - q)) - 1)) for h in sorted(ma))
        stats["steps"] += 1
        try:
            b = copy.deepcopy(a)
            timed(b.resize, q + 1)
            verify_state(b, ma, hist + (("resize", q + 1, 0),), failures, False, q + 1,
                         [h for h in uni])
            if q > 3 and len(ma) < (1 << (q - 1)):
                c = copy.deepcopy(a)
                timed(c.resize, q - 1)
                verify_state(c, ma, hist + (("resize", q - 1, 0),), failures, False, q - 1, uni)
            d = QuotientFilter(quotient=q + 1, auto_expand=True)
            md = set()
            for h in rnd.sample(uni, rnd.randrange(0, 5)):
                d.add_alt(h)
                md.add(h)
            timed(d.merge, a)
            verify_state(d, md | ma, hist + (("merge", 0, 0),), failures, False, q + 1, uni)
        except Hang:
            fail(failures, "terminates", hist, "resize/merge did not return", False, q)
        except Exception as e:   # noqa: BLE001
            fail(failures, f"unexpected_{type(e).__name__}", hist, f"resize/merge: {e}", False, q)


def tight_resizes(q, rems, failures, stats, rnd, per_size):
    """manual resize to every legal target (smaller, equal, larger) for EVERY element count up to a nearly full target
    table, auto_expand off and on: a tight target makes the automatic expansion fire inside the rebuild"""
    uni = universe(q, rems)
    for target in range(max(3, q - 2), q + 2):
        for count in range(0, min(len(uni), 1 << min(q, target))):
            for auto in (False, True):
                for _ in range(per_size):
                    a = QuotientFilter(quotient=q, auto_expand=auto)
                    ma = set()
                    for h in rnd.sample(uni, count):
                        if a.elements_added >= (1 << a._q) - 1 and not auto:
                            break
                        a.add_alt(h)
                        ma.add(h)
                    if a._q != q or len(ma) >= (1 << target):
                        continue          # grew on its own / would not fit: resize() refuses, nothing to compare
                    hist = tuple(("add", h >> (32 - q), h & ((1 << (32 - q)) - 1)) for h in sorted(ma))
                    stats["steps"] += 1
                    try:
                        timed(a.resize, target)
                        verify_state(a, ma, hist + (("resize", target, int(auto)),), failures, False, target, uni)
                    except Hang:
                        fail(failures, "terminates", hist, f"resize({target}) did not return", False, q)
                    except QuotientFilterError:
                        pass
                    except Exception as e:   # noqa: BLE001
                        fail(failures, f"unexpected_{type(e).__name__}", hist, f"resize({target}): {e}", False, q)


def random_walks(q, rems, auto, n_walks, length, failures, stats, rnd, deadline):
    """deep random histories (the breadth-first part cannot reach completely full tables within its budget)"""
    uni = universe(q, rems)
    for _ in range(n_walks):
        if time.time() > deadline:
            break
        g = QuotientFilter(quotient=q, auto_expand=auto)
        model, hist, was_full = set(), (), False
        p_add = rnd.choice([0.55, 0.7, 0.9])
        for _ in range(length):
            stats["steps"] += 1
            if rnd.random() < p_add or not model:
                h = rnd.choice(uni)
                op = "add"
            else:
                h = rnd.choice(sorted(model)) if rnd.random() < 0.85 else rnd.choice(uni)
                op = "rm"
            step = (op, h >> (32 - q), h & ((1 << (32 - q)) - 1))
            try:
                if op == "add":
                    timed(g.add_alt, h)
                    model.add(h)
                else:
                    timed(g.remove_alt, h)
                    model.discard(h)
            except Hang:
                fail(failures, "terminates", hist + (step,), "call did not return", was_full, q)
                break
            except QuotientFilterError:
                if op == "add" and not auto and len(model) >= (1 << g._q):
                    continue
                fail(failures, "unexpected_QuotientFilterError", hist + (step,), "", was_full, q)
                break
            except Exception as e:   # noqa: BLE001
                fail(failures, f"unexpected_{type(e).__name__}", hist + (step,), str(e), was_full, q)
                break
            hist = hist + (step,)
            was_full = was_full or len(model) >= (1 << g._q)
            if not verify_state(g, model, hist, failures, was_full, q, uni):
                break


def run(tier, seed):
    import random
    rnd = random.Random(seed)
    failures = []
    stats = {"steps": 0, "states": 0, "max_depth": 8 if tier == "quick" else 12}
    deadline = time.time() + (12 if tier == "quick" else 900)
    configs = [(3, [0, 1], False, 60000), (3, [0, 1], True, 20000)] if tier == "quick" else \
        [(3, [0, 1, 2], False, 2000000), (3, [0, 1], True, 200000), (4, [0, 1], False, 1000000)]
    for q, rems, auto, cap in configs:
        explore(q, rems, auto, cap, deadline, failures, stats, None)
    wd = time.time() + (20 if tier == "quick" else 600)
    random_walks(3, [0, 1, 2], False, 600 if tier == "quick" else 30000, 24, failures, stats, rnd, wd)
    random_walks(3, [0, 1, 2], True, 200 if tier == "quick" else 10000, 40, failures, stats, rnd, wd)
    random_walks(4, [0, 1], False, 100 if tier == "quick" else 5000, 40, failures, stats, rnd, wd)
    resize_merge_checks(3, [0, 1, 5], failures, stats, rnd, 200 if tier == "quick" else 3000)
    resize_merge_checks(4, [0, 1], failures, stats, rnd, 100 if tier == "quick" else 1500)
    tight_resizes(4, [0, 1, 2], failures, stats, rnd, 2 if tier == "quick" else 20)
    tight_resizes(5, [0, 1], failures, stats, rnd, 2 if tier == "quick" else 20)
    if tier != "quick":
        tight_resizes(6, [0, 3], failures, stats, rnd, 10)
    return {"cases": stats["steps"], "states": stats["states"], "failures": failures,
            "bound": f"all layouts reachable in <= {stats['max_depth']} operations, quotient 3 (8 slots), remainder alphabet "
                     f"{'{0,1}' if tier == 'quick' else '{0,1,2}; quotient 4 with {0,1}'}; auto_expand off and on; "
                     "random resize/merge on reached sets; manual resize of quotient 4/5 tables to every legal target at "
                     "every element count",
            "exhaustive": bool(stats.get("exhausted"))}
