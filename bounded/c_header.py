"""C06 bounded stand-in for export_c_header (f-strings + textwrap: outside the verifier's string support):
the generated header is parsed back and compared with the filter's parameters and with its documented byte layout,
for every filter geometry of a small family x key sets.  Labelled bounded."""
from __future__ import annotations

import os
import random
import re
import struct
import tempfile

from probables import BloomFilter, CountingBloomFilter


def run(tier, seed):
    rnd = random.Random(seed)
    failures = []
    cases = 0
    params = [(1, 0.5), (2, 0.3), (3, 0.2), (5, 0.1), (10, 0.05)] + ([(20, 0.01), (33, 0.001)] if tier == "thorough" else [])
    # every exported size residue (the header wraps its rows): all element counts 1..60 at one rate, one key set each
    sweep = [(n, 0.05) for n in range(1, 61 if tier == "quick" else 200)]
    with tempfile.TemporaryDirectory(prefix="pyvc-hdr-") as tmp:
        for cls in (BloomFilter, CountingBloomFilter):
            for n, p in params + sweep:
                for nkeys in (range(0, 4 if tier == "quick" else 8) if (n, p) in params else (2,)):
                    for rep in range((2 if tier == "quick" else 6) if (n, p) in params else 1):
                        cases += 1
                        f = cls(n, p)
                        for _ in range(nkeys):
                            f.add(f"k{rnd.randrange(50)}")
                        path = os.path.join(tmp, "h.h")
                        f.export_c_header(path)
                        text = open(path).read()

                        def num(name):
                            m = re.search(rf"{name} = ([0-9.eE+-]+);", text)
                            return m.group(1) if m else None
                        body = re.search(r"bloom\[\] = \{(.*)\};", text, re.S)
                        data = bytes(int(x, 16) for x in re.findall(r"0x([0-9a-fA-F]{2})", body.group(1))) if body else b""
                        want = bytes.fromhex(f.export_hex())
                        bad = None
                        if num("estimated_elements") != str(f.estimated_elements) or num("elements_added") != str(f.elements_added):
                            bad = "element counts"
                        elif num("number_bits") != str(f.number_bits) or num("number_hashes") != str(f.number_hashes):
                            bad = "geometry"
                        elif num("false_positive_rate") is None or abs(float(num("false_positive_rate")) - f.false_positive_rate) > 1e-12:
                            bad = "false positive rate"
                        elif data != want:
                            bad = "byte array differs from export_hex"
                        elif struct.unpack(">QQf", want[-20:])[:2] != (f.estimated_elements, f.elements_added):
                            bad = "hex footer"
                        if bad:
                            failures.append({"obligation": "B.c_header." + bad.replace(" ", "_"), "clause": bad,
                                             "case": {"class": cls.__name__, "n": n, "p": p, "keys": nkeys}})
    return {"cases": cases, "failures": failures[:20],
            "bound": f"every element count 1..{len(sweep)} at rate 0.05 (all size residues of the wrapped rows) and {len(params)} geometries (<= {'63' if tier == 'quick' else '475'} bits) x 0..{3 if tier == 'quick' else 7} keys, "
                     "plain and counting filters"}
