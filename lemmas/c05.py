"""C05 - export followed by load reproduces the structure (bytes / file-object channel)"""
from pyvc.api import lemma

lemma("P.C05.bloom_bytes_roundtrip", '''
def lemma(x):
    b = bytes(x)
    y = BloomFilter.frombytes(b, x._hash_func)
    assert y._est_elements == x._est_elements and y._els_added == x._els_added and y._fpr == x._fpr
    assert y._num_bits == x._num_bits and y._number_hashes == x._number_hashes and y._bloom_length == x._bloom_length
    assert y._hash_func == x._hash_func
    assert len(y._bloom) == len(x._bloom)
    assert all(y._bloom[i] == x._bloom[i] for i in range(0, len(x._bloom)))
    b2 = bytes(y)
    assert len(b2) == len(b)
    assert all(b2[i] == b[i] for i in range(0, len(x._bloom)))
    assert le_bytes(b2, len(x._bloom), 8) == le_bytes(b, len(x._bloom), 8)
    assert le_bytes(b2, len(x._bloom) + 8, 8) == le_bytes(b, len(x._bloom) + 8, 8)
    assert f32_at(b2, len(x._bloom) + 16) == f32_at(b, len(x._bloom) + 16)
''', properties=["C05"], params={"x": "obj:BloomFilter"},
      requires=["inv_bloom_mem(x)", "geo_bloom(x)", "x._num_bits < 2**53",
                "0 <= x._est_elements < 2**64 and 0 <= x._els_added < 2**64"])

lemma("P.C05.bloom_equal_state_exports_equal_bytes", '''
def lemma(x, y):
    b = bytes(x)
    b2 = bytes(y)
    n = len(x._bloom)
    n2 = len(y._bloom)
    assert len(b2) == len(b) and len(b) == n + 20
    assert all(b2[i] == b[i] for i in range(0, n))
    assert b2[n2 + 0] == b[n + 0]
    assert b2[n2 + 1] == b[n + 1]
    assert b2[n2 + 2] == b[n + 2]
    assert b2[n2 + 3] == b[n + 3]
    assert b2[n2 + 4] == b[n + 4]
    assert b2[n2 + 5] == b[n + 5]
    assert b2[n2 + 6] == b[n + 6]
    assert b2[n2 + 7] == b[n + 7]
    assert b2[n2 + 8] == b[n + 8]
    assert b2[n2 + 9] == b[n + 9]
    assert b2[n2 + 10] == b[n + 10]
    assert b2[n2 + 11] == b[n + 11]
    assert b2[n2 + 12] == b[n + 12]
    assert b2[n2 + 13] == b[n + 13]
    assert b2[n2 + 14] == b[n + 14]
    assert b2[n2 + 15] == b[n + 15]
    assert b2[n2 + 16] == b[n + 16]
    assert b2[n2 + 17] == b[n + 17]
    assert b2[n2 + 18] == b[n + 18]
    assert b2[n2 + 19] == b[n + 19]
''', properties=["C05"], params={"x": "obj:BloomFilter", "y": "obj:BloomFilter"},
      requires=["inv_bloom_mem(x)", "inv_bloom_mem(y)", "0 <= x._est_elements < 2**64 and 0 <= x._els_added < 2**64",
                ("same_observable_state", "y._est_elements == x._est_elements and y._els_added == x._els_added and "
                                          "y._fpr == x._fpr and len(y._bloom) == len(x._bloom) and "
                                          "all(y._bloom[i] == x._bloom[i] for i in range(0, len(x._bloom)))")])


# ---- expanding filter: frombytes(bytes(x)) has the same sub-filters, counters and parameters, and re-exports the same bytes
_XR = ["inv_exp(x)", "0 <= x._added_elements < 2**64 and eb_est(x) < 2**64 and len(x._blooms) < 2**64",
       "(eb_fpr(x) < 0.0 or f32(eb_fpr(x)) > 0.0) and 0 <= eb_fpr(x) < 1"]
lemma("P.C05.expanding_bytes_roundtrip", '''
def lemma(x, k):
    b = bytes(x)
    n = len(x._blooms)
    c = eb_cells(x)
    assert len(b) == smul(n, c + 8) + 28
    assert le_bytes(b, len(b) - 28, 8) == n
    assert le_bytes(b, len(b) - 20, 8) == eb_est(x)
    assert le_bytes(b, len(b) - 12, 8) == x._added_elements
    assert f32_at(b, len(b) - 4) == f32(eb_fpr(x))
    y = ExpandingBloomFilter.frombytes(b, eb_hf(x))
    assert len(y._blooms) == n and eb_est(y) == eb_est(x) and y._added_elements == x._added_elements
    assert eb_fpr(y) == f32(eb_fpr(x)) and eb_hf(y) == eb_hf(x)
    assert eb_cells(y) == c
    assert y._blooms[k]._num_bits == x._blooms[k]._num_bits and y._blooms[k]._number_hashes == x._blooms[k]._number_hashes
    assert y._blooms[k]._est_elements == x._blooms[k]._est_elements and y._blooms[k]._fpr == x._blooms[k]._fpr
    # the cells of an arbitrary sub-filter k (k is a parameter of the lemma, hence universally quantified)
    assert smul(k, c + 8) >= 0 and smul(k, eb_cells(y) + 8) == smul(k, c + 8)      # (ground terms for the record of k)
    assert le_bytes(b, smul(k, c + 8), 8) == x._blooms[k]._els_added
    assert le_bytes(b, smul(k, c + 8), 8) == y._blooms[k]._els_added
    assert y._blooms[k]._els_added == x._blooms[k]._els_added
    assert all(y._blooms[k]._bloom[j] == b[smul(k, eb_cells(y) + 8) + 8 + j] for j in range(0, eb_cells(y)))   # (the ensures instance)
    assert all(x._blooms[k]._bloom[j] == b[smul(k, c + 8) + 8 + j] for j in range(0, c))
    assert all(y._blooms[k]._bloom[j] == x._blooms[k]._bloom[j] for j in range(0, c))
    assert len(y._blooms[k]._bloom) == c and len(x._blooms[k]._bloom) == c
''', properties=["C05", "C01", "C09"], params={"x": "obj:ExpandingBloomFilter", "k": "int"},
      requires=_XR + ["0 <= k < len(x._blooms)"])


lemma("P.C05.counting_bloom_bytes_roundtrip", '''
def lemma(x, c):
    b = bytes(x)
    n = len(x._bloom)
    assert len(b) == 4 * n + 20
    assert le_bytes(b, len(b) - 20, 8) == x._est_elements
    assert le_bytes(b, len(b) - 12, 8) == x._els_added
    assert f32_at(b, len(b) - 4) == x._fpr
    y = CountingBloomFilter.frombytes(b, x._hash_func)
    assert y._est_elements == x._est_elements and y._els_added == x._els_added and y._fpr == x._fpr
    assert y._num_bits == x._num_bits and y._number_hashes == x._number_hashes and y._bloom_length == x._bloom_length
    assert y._hash_func == x._hash_func and len(y._bloom) == n
    # an arbitrary cell c (parameter of the lemma, hence universally quantified)
    assert le_bytes(b, 4 * c, 4) == x._bloom[c]
    assert y._bloom[c] == le_bytes(b, 4 * c, 4)
    assert y._bloom[c] == x._bloom[c]
''', properties=["C05", "C08"], params={"x": "obj:CountingBloomFilter", "c": "int"},
      requires=["inv_cbloom(x)", "geo_bloom(x)", "x._num_bits < 2**53", "0 <= c < len(x._bloom)",
                "0 <= x._est_elements < 2**64 and 0 <= x._els_added < 2**64",
                "all(0 <= x._bloom[q] < 2**32 for q in range(0, len(x._bloom)))"])


lemma("P.C05.bloom_hex_roundtrip", '''
def lemma(x, c):
    h = x.export_hex()
    n = len(x._bloom)
    assert len(h) == 2 * (n + 20) and len(unhex(h)) == n + 20
    assert be_bytes(unhex(h), len(unhex(h)) - 20, 8) == x._est_elements
    assert be_bytes(unhex(h), len(unhex(h)) - 12, 8) == x._els_added
    assert f32_at_be(unhex(h), len(unhex(h)) - 4) == x._fpr
    y = BloomFilter(None, None, None, h, x._hash_func)
    assert y._est_elements == x._est_elements and y._els_added == x._els_added and y._fpr == x._fpr
    assert y._num_bits == x._num_bits and y._number_hashes == x._number_hashes and y._bloom_length == x._bloom_length
    assert y._hash_func == x._hash_func and len(y._bloom) == n
    assert hex_byte(h, c) == x._bloom[c]
    assert y._bloom[c] == x._bloom[c]
''', properties=["C05", "C01"], params={"x": "obj:BloomFilter", "c": "int"},
      requires=["inv_bloom_mem(x)", "geo_bloom(x)", "x._num_bits < 2**53", "0 <= c < len(x._bloom)",
                "0 <= x._est_elements < 2**64 and 0 <= x._els_added < 2**64"])

lemma("P.C05.counting_bloom_hex_roundtrip", '''
def lemma(x, c):
    h = x.export_hex()
    n = len(x._bloom)
    assert len(h) == 2 * (4 * n + 20) and len(unhex(h)) == 4 * n + 20
    assert be_bytes(unhex(h), len(unhex(h)) - 20, 8) == x._est_elements
    assert be_bytes(unhex(h), len(unhex(h)) - 12, 8) == x._els_added
    assert f32_at_be(unhex(h), len(unhex(h)) - 4) == x._fpr
    y = CountingBloomFilter(None, None, None, h, x._hash_func)
    assert y._est_elements == x._est_elements and y._els_added == x._els_added and y._fpr == x._fpr
    assert y._num_bits == x._num_bits and y._number_hashes == x._number_hashes
    assert y._hash_func == x._hash_func and len(y._bloom) == n
    assert le_bytes(unhex(h), 4 * c, 4) == x._bloom[c]
    assert y._bloom[c] == x._bloom[c]
''', properties=["C05", "C08"], params={"x": "obj:CountingBloomFilter", "c": "int"},
      requires=["inv_cbloom(x)", "geo_bloom(x)", "x._num_bits < 2**53", "0 <= c < len(x._bloom)",
                "0 <= x._est_elements < 2**64 and 0 <= x._els_added < 2**64",
                "all(0 <= x._bloom[q] < 2**32 for q in range(0, len(x._bloom)))"])
