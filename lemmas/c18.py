from pyvc.api import lemma

lemma("P.C18.fnv_prefix_stable", '''
def lemma(key, d1, d2):
    r1 = default_fnv_1a(key, d1)
    r2 = default_fnv_1a(key, d2)
    assert len(r1) == d1
    assert all(r1[j] == r2[j] for j in range(0, d1))
''', properties=["C18"], params={"key": "key", "d1": "int", "d2": "int"}, requires=["1 <= d1 <= d2"])

lemma("P.C18.fnv_deterministic", '''
def lemma(key, d):
    r1 = default_fnv_1a(key, d)
    r2 = default_fnv_1a(key, d)
    assert len(r1) == len(r2)
    assert all(r1[j] == r2[j] for j in range(0, d))
''', properties=["C18"], params={"key": "key", "d": "int"}, requires=["d >= 1"])

lemma("P.C18.fnv_ascii_text_equals_bytes", '''
def lemma(s, b, seed):
    r1 = fnv_1a(s, seed)
    r2 = fnv_1a(b, seed)
    assert r1 == r2
    q1 = fnv_1a_32(s, seed)
    q2 = fnv_1a_32(b, seed)
    assert q1 == q2
''', properties=["C18"], params={"s": "key", "b": "key", "seed": "int"},
      requires=["isinstance(s, str)", "s.isascii()", "b == s.encode('utf-8')"])

lemma("P.C18.bytes_decorator_prefix_stable_and_text_as_utf8", '''
def lemma(func, key, s, d1, d2):
    r1 = hashing_func(key, d1)
    r2 = hashing_func(key, d2)
    assert len(r1) == d1
    assert all(r1[j] == r2[j] for j in range(0, d1))
    t1 = hashing_func(s, d1)
    t2 = hashing_func(s.encode('utf-8'), d1)
    assert all(t1[j] == t2[j] for j in range(0, d1))
''', properties=["C18"], params={"func": "bytesfunc", "key": "key", "s": "key", "d1": "int", "d2": "int"},
      requires=["1 <= d1 <= d2", "isinstance(s, str)"],
      bind={"hashing_func": "probables.hashes.hash_with_depth_bytes.hashing_func"})

lemma("P.C18.int_decorator_prefix_stable", '''
def lemma(func, key, d1, d2):
    r1 = hashing_func(key, d1)
    r2 = hashing_func(key, d2)
    assert len(r1) == d1
    assert all(r1[j] == r2[j] for j in range(0, d1))
''', properties=["C18"], params={"func": "intfunc", "key": "key", "d1": "int", "d2": "int"},
      requires=["1 <= d1 <= d2"],
      bind={"hashing_func": "probables.hashes.hash_with_depth_int.hashing_func"})
