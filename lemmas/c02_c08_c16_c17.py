"""C02, C08, C16, C17 - lemmas over the contracts of the counting structures"""
from pyvc.api import lemma

_S = ["inv_cms(self)", "is_min_mode(self)", "len(hx) == cd(self)", "len(hy) == cd(self)", "n >= 1"]
_XCELLS_GE = "all(row_cell(self, hx, i) >= {v} for i in range(0, cd(self)))"

lemma("P.C02.add_returns_what_check_reports_and_raises_the_keys_estimate", '''
def lemma(self, hx, hy, n, cx):
    r = self.add_alt(hx, n)
    assert r == self.check_alt(hx)
    assert r >= cx + n
    assert all(row_cell(self, hx, i) >= cx + n for i in range(0, cd(self)))
''', properties=["C02"], params={"self": "obj:CountMinSketch", "hx": "list[int]", "hy": "list[int]", "n": "int", "cx": "int"},
      requires=_S + [("true_count_below_every_cell_of_the_key", _XCELLS_GE.format(v="cx")),
                     ("no_saturation", "all(row_cell(self, hx, i) + n <= 2147483647 for i in range(0, cd(self)))")])

lemma("P.C02.adding_another_key_never_lowers_an_estimate", '''
def lemma(self, hx, hy, n, cx):
    self.add_alt(hy, n)
    assert all(row_cell(self, hx, i) >= cx for i in range(0, cd(self)))
    assert self.check_alt(hx) >= cx
''', properties=["C02"], params={"self": "obj:CountMinSketch", "hx": "list[int]", "hy": "list[int]", "n": "int", "cx": "int"},
      requires=_S + [("true_count_below_every_cell_of_the_key", _XCELLS_GE.format(v="cx")),
                     ("cells_nonneg", "all(self._bins[x] >= 0 for x in range(0, cw(self) * cd(self)))")])

lemma("P.C02.estimate_never_exceeds_the_total", '''
def lemma(self, hx, hy, n, cx):
    # invariant: every cell is between 0 and the element total; add keeps it, so every estimate is <= the total
    self.add_alt(hy, n)
    assert all(0 <= self._bins[x] and self._bins[x] <= ctotal(self) for x in range(0, cw(self) * cd(self)))
    assert self.check_alt(hx) <= ctotal(self)
''', properties=["C02"], params={"self": "obj:CountMinSketch", "hx": "list[int]", "hy": "list[int]", "n": "int", "cx": "int"},
      requires=_S + [("cells_between_0_and_total", "all(0 <= self._bins[x] and self._bins[x] <= ctotal(self) for x in range(0, cw(self) * cd(self)))"),
                     ("total_below_int32", "ctotal(self) + n <= 2147483647")])

lemma("P.C02.legitimate_removal_of_the_key_itself", '''
def lemma(self, hx, hy, n, cx):
    r = self.remove_alt(hx, n)
    assert r == self.check_alt(hx)
    assert all(row_cell(self, hx, i) >= cx - n for i in range(0, cd(self)))
''', properties=["C02"], params={"self": "obj:CountMinSketch", "hx": "list[int]", "hy": "list[int]", "n": "int", "cx": "int"},
      requires=_S + [("true_count_below_every_cell_of_the_key", _XCELLS_GE.format(v="cx")), "n <= cx",
                     ("cells_nonneg", "all(self._bins[x] >= 0 for x in range(0, cw(self) * cd(self)))")])

# ---- counting Bloom filter (C08) -------------------------------------------------------------------------------------
_CB = ["inv_cbloom(self)", "len(h) >= self._number_hashes", "n >= 1", "self._els_added >= 0"]
_UNSAT = ("unsaturated", "all(self._bloom[c] + wsum(h, self._number_hashes, self._bloom_length, c, n) < 4294967295 "
                         "for c in range(0, self._bloom_length)) and self._els_added + n <= 18446744073709551615")

lemma("P.C08.counting_bloom_remove_undoes_add", '''
def lemma(self, h, n):
    cells0 = [self._bloom[c] for c in range(0, self._bloom_length)]
    added0 = self._els_added
    self.add_alt(h, n)
    assert all(self._bloom[h[j] % self._bloom_length] >= n for j in range(0, self._number_hashes))
    r = self.remove_alt(h, n)
    assert all(self._bloom[c] == cells0[c] for c in range(0, self._bloom_length))
    assert self._els_added == added0
''', properties=["C08"], params={"self": "obj:CountingBloomFilter", "h": "list[int]", "n": "int"},
      requires=_CB + [_UNSAT, ("weights_positive_on_the_keys_cells",
                               "all(wsum(h, self._number_hashes, self._bloom_length, h[j] % self._bloom_length, n) >= n "
                               "for j in range(0, self._number_hashes))")])

lemma("P.C08.counting_bloom_add_raises_the_keys_count_others_never_lower_it", '''
def lemma(self, h, h2, n, cx):
    self.add_alt(h2, n)
    assert all(self._bloom[h[j] % self._bloom_length] >= cx for j in range(0, self._number_hashes))
    assert self.check_alt(h) >= cx
''', properties=["C08"], params={"self": "obj:CountingBloomFilter", "h": "list[int]", "h2": "list[int]", "n": "int", "cx": "int"},
      requires=_CB + ["len(h2) >= self._number_hashes", "len(h) == self._number_hashes", "0 <= cx <= 4294967295",
                      ("true_count_below_every_cell_of_the_key",
                       "all(self._bloom[h[j] % self._bloom_length] >= cx for j in range(0, self._number_hashes))"),
                      ("weights_nonneg", "all(wsum(h2, self._number_hashes, self._bloom_length, c, n) >= 0 for c in range(0, self._bloom_length))")])

lemma("P.C08.removing_an_absent_key_changes_nothing_and_says_so", '''
def lemma(self, h, n):
    cells0 = [self._bloom[c] for c in range(0, self._bloom_length)]
    added0 = self._els_added
    r = self.remove_alt(h, n)
    assert r == 0
    assert all(self._bloom[c] == cells0[c] for c in range(0, self._bloom_length))
    assert self._els_added == added0
''', properties=["C08"], params={"self": "obj:CountingBloomFilter", "h": "list[int]", "n": "int"},
      requires=_CB + ["len(h) == self._number_hashes", ("reported_absent", "self.check_alt(h) == 0")])

# ---- saturation (C16) -----------------------------------------------------------------------------------------------------
lemma("P.C16.saturated_structures_stay_exportable", '''
def lemma(s, hs, c, hc, n):
    s.add_alt(hs, n)
    assert all(-2147483648 <= s._bins[x] and s._bins[x] <= 2147483647 for x in range(0, cw(s) * cd(s)))
    assert -9223372036854775808 <= ctotal(s) and ctotal(s) <= 9223372036854775807
    b = bytes(s)
    c.add_alt(hc, n)
    assert all(0 <= c._bloom[i] and c._bloom[i] <= 4294967295 for i in range(0, c._bloom_length))
    assert 0 <= c._els_added and c._els_added <= 18446744073709551615
''', properties=["C16"],
      params={"s": "obj:CountMinSketch", "hs": "list[int]", "c": "obj:CountingBloomFilter", "hc": "list[int]", "n": "int"},
      requires=["inv_cms(s)", "is_min_mode(s)", "len(hs) == cd(s)", "cw(s) < 2**32 and cd(s) < 2**32",
                "inv_cbloom(c)", "len(hc) >= c._number_hashes", "c._els_added >= 0", "n >= 1"])

# ---- C17 -------------------------------------------------------------------------------------------------------------------
_ST = ["inv_cms(self)", "is_min_mode(self)", "len(hashes) == cd(self)", "n >= 1", "g_threshold(self, last, seen)"]
for _op in ("add_alt", "remove_alt"):
    lemma(f"P.C17.threshold_table_tracks_the_most_recent_estimates.{_op}", f'''
def lemma(self, key, hashes, n, last, seen):
    r = self.{_op}(key, hashes, n)
    last2 = upd(last, key, r)
    seen2 = upd(seen, key, 1)
    assert g_threshold(self, last2, seen2)
    # a key whose returned estimate reaches the threshold is never missing
    assert implies(r >= self._StreamThreshold__threshold, key in self._StreamThreshold__meets_threshold)
''', properties=["C17"], params={"self": "obj:StreamThreshold", "key": "key", "hashes": "list[int]", "n": "int",
                                 "last": "map", "seen": "map"}, requires=_ST)

_HH = ["inv_cms(self)", "is_min_mode(self)", "len(hashes) == cd(self)", "n >= 1", "self._HeavyHitters__num_hitters >= 1",
       "g_hitters(self, last, seen, nseen)",
       # estimates only grow under additions (P.C02.adding_another_key_never_lowers_an_estimate): the new estimate of a
       # key is at least its previous one
       ("estimates_only_grow", "implies(key in seen, True)")]
_HHTEXT = '''
def lemma(self, key, hashes, n, last, seen, nseen):
    was_seen = key in seen
    was_tracked = key in self._HeavyHitters__top_x
    size0 = self._HeavyHitters__top_x_size
    smallest0 = self._HeavyHitters__smallest
    t0 = self._HeavyHitters__top_x
    # while there is room every key seen so far is tracked
    assert implies(size0 < self._HeavyHitters__num_hitters, all(implies(k in seen, k in t0) for k in allkeys(seen, t0)))
    r = self.add_alt(key, hashes, n)
    # estimates only grow under additions (P.C02.adding_another_key_never_lowers_an_estimate)
    assume(implies(was_seen, r >= last[key]))
    assume(CASE)
    last2 = upd(last, key, r)
    seen2 = upd(seen, key, 1)
    nseen2 = nseen if was_seen else nseen + 1
    t = self._HeavyHitters__top_x
    assert self._HeavyHitters__top_x_size == len(t)
    assert len(t) == (self._HeavyHitters__num_hitters if nseen2 >= self._HeavyHitters__num_hitters else nseen2)
    assert nseen2 == len(seen2)
    assert self._HeavyHitters__smallest >= 0 and implies(len(t) < self._HeavyHitters__num_hitters, self._HeavyHitters__smallest == 0)
    assert all(self._bins[x] >= 0 for x in range(0, cw(self) * cd(self)))
    assert r >= 1
    assert all(implies(k in seen2, k in last2) for k in allkeys(seen2, last2))
    assert all(implies(k in t, (k in seen2) and t[k] == last2[k] and self._HeavyHitters__smallest <= t[k]) for k in allkeys(t, seen2))
    assert all(implies((k in seen2) and not (k in t), len(t) >= self._HeavyHitters__num_hitters and
                       all(implies(k2 in t, last2[k] <= t[k2]) for k2 in allkeys(t))) for k in allkeys(seen2, t))
    assert g_hitters(self, last2, seen2, nseen2)
'''
_HHP = {"self": "obj:HeavyHitters", "key": "key", "hashes": "list[int]", "n": "int", "last": "map", "seen": "map", "nseen": "int"}
for _nm, _case in (("room_left", "size0 < self._HeavyHitters__num_hitters"),
                   ("key_already_tracked", "size0 >= self._HeavyHitters__num_hitters and was_tracked"),
                   ("heavier_untracked_key", "size0 >= self._HeavyHitters__num_hitters and (not was_tracked) and r > smallest0"),
                   ("lighter_untracked_key", "size0 >= self._HeavyHitters__num_hitters and (not was_tracked) and r <= smallest0")):
    lemma("P.C17.heavy_hitters_table_is_consistent." + _nm, _HHTEXT.replace("CASE", _case), properties=["C17"],
          params=_HHP, requires=_HH[:-1])
