"""Property lemmas: ghost functions that may only CALL functions under contract."""
from . import c01, c02_c08_c16_c17, c05, c09_c10, c11, c12_c13, c18, c19  # noqa: F401
