"""Property lemmas: ghost functions that may only CALL functions under contract."""
from . import c01, c05, c09_c10, c11, c12_c13, c18  # noqa: F401
