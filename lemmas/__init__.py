"""Property lemmas: ghost functions that may only CALL functions under contract."""
from . import c01, c18  # noqa: F401
