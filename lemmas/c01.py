"""C01 - an added key is never reported absent (in-memory / on-disk Bloom filter part).
G(key) := every position the strategy selects for key is set.   add establishes G(key); every other
operation that does not clear preserves it; G(key) implies check(key)."""
from pyvc.api import lemma

_ENOUGH = "len(strategy(self._hash_func, {k}, self._number_hashes)) >= self._number_hashes"
_G = ("all(bit(self._bloom, strategy(self._hash_func, key, self._number_hashes)[j] % self._num_bits) "
      "for j in range(0, self._number_hashes))")
_VARS = [{"self": "obj:BloomFilterOnDisk"}]

lemma("P.C01.add_then_present", '''
def lemma(self, key):
    self.add(key)
    assert self.check(key)
    assert key in self
''', properties=["C01"], params={"self": "obj:BloomFilter", "key": "key"},
      requires=["inv_bloom(self)", _ENOUGH.format(k="key")])

lemma("P.C01.later_add_keeps_earlier_key", '''
def lemma(self, key, other):
    self.add(other)
    assert self.check(key)
''', properties=["C01"], params={"self": "obj:BloomFilter", "key": "key", "other": "key"},
      requires=["inv_bloom(self)", _ENOUGH.format(k="key"), _ENOUGH.format(k="other"), ("key_was_added", _G)])

lemma("P.C01.hash_level_add_then_present_and_kept", '''
def lemma(self, h, h2):
    self.add_alt(h)
    assert self.check_alt(h)
    self.add_alt(h2)
    assert self.check_alt(h)
''', properties=["C01"], params={"self": "obj:BloomFilter", "h": "list[int]", "h2": "list[int]"},
      requires=["inv_bloom(self)", "len(h) >= self._number_hashes", "len(h2) >= self._number_hashes"])

lemma("P.C01.bits_only_grow_under_add", '''
def lemma(self, h, k):
    was = bit(self._bloom, k)
    self.add_alt(h)
    assert implies(was, bit(self._bloom, k))
''', properties=["C01"], params={"self": "obj:BloomFilter", "h": "list[int]", "k": "int"},
      requires=["inv_bloom(self)", "len(h) >= self._number_hashes", "0 <= k < 8 * self._bloom_length"])

lemma("P.C01.union_reports_keys_of_both_operands", '''
def lemma(self, second, key):
    in_self = self.check(key)
    in_second = second.check(key)
    u = self.union(second)
    assert u is not None
    assert implies(in_self or in_second, u.check(key))
''', properties=["C01", "C12"], params={"self": "obj:BloomFilter", "second": "obj:BloomFilter", "key": "key"},
      requires=["inv_bloom(self)", "geo_bloom(self)", "self._num_bits < 2**53", "inv_bloom(second)",
                "compatible_blooms(self, second)", ("same_hash_function", "self._hash_func == second._hash_func"),
                _ENOUGH.format(k="key")],
      variants=[{"second": "obj:BloomFilterOnDisk"}, {"self": "obj:BloomFilterOnDisk"}])
