"""C12 / C13 - union, join, intersection, Jaccard: lemmas over the contracts"""
from pyvc.api import lemma

_B = ["inv_bloom(self)", "geo_bloom(self)", "self._num_bits < 2**53", "inv_bloom(second)", "compatible_blooms(self, second)"]
_BV = [{"second": "obj:BloomFilterOnDisk"}, {"self": "obj:BloomFilterOnDisk"}]

lemma("P.C12.bloom_union_is_the_filter_fed_both_streams", '''
def lemma(self, second, both, h):
    # `both` holds exactly the positions of self and second (it received both input streams so far);
    # the next element of self's stream goes to self and to both: the relation is kept
    u0 = self.union(second)
    assert u0 is not None
    assert all(bit(u0._bloom, k) == bit(both._bloom, k) for k in range(0, 8 * self._bloom_length))
    self.add_alt(h)
    both.add_alt(h)
    u1 = self.union(second)
    assert u1 is not None
    assert all(bit(u1._bloom, k) == bit(both._bloom, k) for k in range(0, 8 * self._bloom_length))
''', properties=["C12"], params={"self": "obj:BloomFilter", "second": "obj:BloomFilter", "both": "obj:BloomFilter", "h": "list[int]"},
      requires=_B + ["inv_bloom(both)", "both._num_bits == self._num_bits and both._number_hashes == self._number_hashes "
                     "and both._bloom_length == self._bloom_length",
                     "len(h) >= self._number_hashes",
                     ("both_holds_the_union", "all(bit(both._bloom, k) == (bit(self._bloom, k) or bit(second._bloom, k)) "
                                              "for k in range(0, 8 * self._bloom_length))")],
      variants=[{"second": "obj:BloomFilterOnDisk"}])

_C = ["inv_cbloom(self)", "geo_bloom(self)", "self._num_bits < 2**53", "inv_cbloom(second)", "compatible_blooms(self, second)"]
lemma("P.C12.counting_union_is_the_filter_fed_both_streams", '''
def lemma(self, second, both, h, n):
    self.add_alt(h, n)
    both.add_alt(h, n)
    u1 = self.union(second)
    assert u1 is not None
    assert all(u1._bloom[c] == both._bloom[c] for c in range(0, self._bloom_length))
''', properties=["C12"],
      params={"self": "obj:CountingBloomFilter", "second": "obj:CountingBloomFilter", "both": "obj:CountingBloomFilter",
              "h": "list[int]", "n": "int"},
      requires=_C + ["inv_cbloom(both)", "both._num_bits == self._num_bits and both._number_hashes == self._number_hashes "
                     "and both._bloom_length == self._bloom_length", "len(h) >= self._number_hashes", "n >= 1",
                     "self._els_added >= 0 and both._els_added >= 0",
                     ("both_holds_the_sum", "all(both._bloom[c] == self._bloom[c] + second._bloom[c] for c in range(0, self._bloom_length))"),
                     ("unsaturated", "all(both._bloom[c] + wsum(h, self._number_hashes, self._bloom_length, c, n) <= 4294967295 "
                                     "for c in range(0, self._bloom_length))")])

lemma("P.C12.sketch_join_is_the_sketch_fed_both_streams", '''
def lemma(self, second, both, h, n):
    self.add_alt(h, n)
    both.add_alt(h, n)
    self.join(second)
    assert all(self._bins[x] == both._bins[x] for x in range(0, cw(self) * cd(self)))
    assert ctotal(self) == ctotal(both)
''', properties=["C12"],
      params={"self": "obj:CountMinSketch", "second": "obj:CountMinSketch", "both": "obj:CountMinSketch", "h": "list[int]", "n": "int"},
      requires=["inv_cms(self)", "inv_cms(second)", "inv_cms(both)", "is_min_mode(self) and is_min_mode(both)",
                "cw(second) == cw(self) and cd(second) == cd(self) and cw(both) == cw(self) and cd(both) == cd(self)",
                "strategy(self._hash_function, 'test', cd(self)) == strategy(second._hash_function, 'test', cd(second))",
                "len(h) == cd(self)", "n >= 1",
                ("both_holds_the_sum", "all(both._bins[x] == self._bins[x] + second._bins[x] for x in range(0, cw(self) * cd(self))) "
                                       "and ctotal(both) == ctotal(self) + ctotal(second)"),
                ("unsaturated", "all(0 <= self._bins[x] and 0 <= second._bins[x] and both._bins[x] + n < 2147483647 "
                                "for x in range(0, cw(self) * cd(self))) and 0 <= ctotal(self) and 0 <= ctotal(second) and "
                                "ctotal(both) + n < 9223372036854775807")])

lemma("P.C13.intersection_reports_keys_of_both_operands", '''
def lemma(self, second, key):
    in_both = self.check(key) and second.check(key)
    x = self.intersection(second)
    assert x is not None
    assert implies(in_both, x.check(key))
    assert all(bit(x._bloom, k) == (bit(self._bloom, k) and bit(second._bloom, k)) for k in range(0, 8 * self._bloom_length))
''', properties=["C13"], params={"self": "obj:BloomFilter", "second": "obj:BloomFilter", "key": "key"},
      requires=_B + ["self._hash_func == second._hash_func",
                     "len(strategy(self._hash_func, key, self._number_hashes)) >= self._number_hashes"],
      variants=_BV)

lemma("P.C13.jaccard_symmetric_and_one_for_identical_operands", '''
def lemma(self, second):
    a = self.jaccard_index(second)
    b = second.jaccard_index(self)
    assert a is not None and b is not None
    assert a == b
    assert 0.0 <= a <= 1.0
    c = self.jaccard_index(self)
    assert popcount_and(self._bloom, self._bloom, self._bloom_length) == popcount_or(self._bloom, self._bloom, self._bloom_length)
    assert c == 1.0
''', properties=["C13"], params={"self": "obj:BloomFilter", "second": "obj:BloomFilter"},
      requires=["inv_bloom(self)", "inv_bloom(second)", "compatible_blooms(self, second)", "compatible_blooms(second, self)",
                "compatible_blooms(self, self)"],
      variants=[{"second": "obj:BloomFilterOnDisk"}])

lemma("P.C13.incompatible_operands_give_none", '''
def lemma(self, second):
    assert self.union(second) is None
    assert self.intersection(second) is None
    assert self.jaccard_index(second) is None
''', properties=["C13"], params={"self": "obj:BloomFilter", "second": "obj:BloomFilter"},
      requires=["inv_bloom(self)", "geo_bloom(self)", "self._num_bits < 2**53", "inv_bloom(second)",
                "not compatible_blooms(self, second)"])
