"""C09 / C10 - growth and rotation lemmas over the contracts of ExpandingBloomFilter / RotatingBloomFilter"""
from pyvc.api import lemma

_E = ["inv_exp(self)", "(eb_fpr(self) < 0.0 or f32(eb_fpr(self)) > 0.0) and 0 <= eb_fpr(self) < 1",
      "len(hashes) >= bloom_k(eb_est(self), bloom_m(eb_est(self), f32(eb_fpr(self))))"]

lemma("P.C09.init_establishes_growth_invariant", '''
def lemma(est, fpr, hf):
    f = ExpandingBloomFilter(est, fpr, None, hf)
    assert g_exp(f, 0)
    assert len(f._blooms) - 1 == 0
''', properties=["C09"], params={"est": "opt[int]", "fpr": "opt[float]", "hf": "opt[hashfunc]"},
      requires=["est is not None and fpr is not None", "est >= 1 and 0 < f32(fpr) < 1 and 0 <= fpr < 1 and "
                "bloom_k(est, bloom_m(est, f32(fpr))) >= 1 and bloom_m(est, f32(fpr)) < 2**53"])

_GROWTH = '''
def lemma(self, hashes, force, total):
    was_present = exp_reports(self, hashes)
    n_before = len(self._blooms)
    self.add_alt(hashes, force)
    effective = force or not was_present
    total2 = total + (1 if effective else 0)
    n2 = len(self._blooms)
    assert all(self._blooms[q]._els_added == eb_est(self) for q in range(0, n2 - 1))
    assert n2 == 1 or self._blooms[n2 - 1]._els_added >= 1
    assert total2 == (n2 - 1) * eb_est(self) + self._blooms[n2 - 1]._els_added
    assert g_exp(self, total2)
    # no sub-filter ever holds more than est_elements insertions
    assert all(self._blooms[q]._els_added <= eb_est(self) for q in range(0, len(self._blooms)))
    # expansions == max(0, ceil(total/est) - 1)  <=>  (len-1)*est < total <= len*est  for total >= 1
    assert implies(total2 >= 1, (len(self._blooms) - 1) * eb_est(self) < total2 and total2 <= len(self._blooms) * eb_est(self))
    assert implies(not effective, len(self._blooms) == n_before)
'''
_GEFF = "(force or not exp_reports(self, hashes))"
_GFULL = "self._blooms[len(self._blooms) - 1]._els_added >= eb_est(self)"
for _name, _case in (("duplicate_add", "not " + _GEFF), ("newest_has_room", _GEFF + " and not (" + _GFULL + ")"),
                     ("newest_is_full", _GEFF + " and " + _GFULL)):
    lemma("P.C09.add_preserves_growth_invariant." + _name, _GROWTH, properties=["C09"],
          params={"self": "obj:ExpandingBloomFilter", "hashes": "list[int]", "force": "bool", "total": "int"},
          requires=_E + ["g_exp(self, total)", "total >= 0", ("case", _case)])

lemma("P.C09.bracket_is_the_expansion_formula", '''
def lemma(n, est, total):
    assert cdiv(total, est) == n
    assert n - 1 == (cdiv(total, est) - 1 if cdiv(total, est) - 1 > 0 else 0)
''', properties=["C09"], params={"n": "int", "est": "int", "total": "int"},
      requires=["n >= 1", "est >= 1", "total >= 1", "(n - 1) * est < total", "total <= n * est"])

_R = _E + ["self._queue_size >= 1 and len(self._blooms) <= self._queue_size"]

lemma("P.C10.bounded_queue_and_capacity", '''
def lemma(self, hashes, force):
    self.add_alt(hashes, force)
    assert 1 <= len(self._blooms) <= self._queue_size
    assert all(self._blooms[q]._els_added <= eb_est(self) for q in range(0, len(self._blooms)))
    self.push()
    assert 1 <= len(self._blooms) <= self._queue_size
''', properties=["C10"], params={"self": "obj:RotatingBloomFilter", "hashes": "list[int]", "force": "bool"}, requires=_R)

lemma("P.C10.absent_key_is_present_after_its_add", '''
def lemma(self, hx):
    self.add_alt(hx, False)
    assert exp_reports(self, hx)
    n = len(self._blooms)
    assert g_rot(self, hx, n - 1, 0, 0)
''', properties=["C10"], params={"self": "obj:RotatingBloomFilter", "hx": "list[int]"},
      requires=[r.replace("hashes", "hx") for r in _R] + ["not exp_reports(self, hx)"])

_WINDOW = '''
def lemma(self, hx, hashes, force, slot, after, age):
    was_present = exp_reports(self, hashes)
    n0 = len(self._blooms)
    full0 = self._blooms[n0 - 1]._els_added == eb_est(self)
    room0 = n0 < self._queue_size
    self.add_alt(hashes, force)
    effective = force or not was_present
    # the key's sub-filter is dropped only by an effective add into a full queue, and only if it is the oldest
    dropped = effective and full0 and (not room0) and slot == 0
    assert implies(dropped, age >= (self._queue_size - 1) * eb_est(self))
    slot2 = slot - 1 if (effective and full0 and not room0) else slot
    after2 = after + 1 if (effective and not full0 and slot == n0 - 1) else after
    age2 = age + 1 if effective else age
    n2 = len(self._blooms)
    assert implies(not dropped, 0 <= slot2 < n2)
    assert implies(not dropped, sub_reports(self._blooms[slot2], hx))
    assert implies(not dropped, 0 <= after2 <= self._blooms[slot2]._els_added - 1)
    assert implies(not dropped, self._blooms[n2 - 1]._els_added >= 1)
    assert implies(not dropped, all(self._blooms[q]._els_added == eb_est(self) for q in range(slot2, n2 - 1)))
    assert implies(not dropped, age2 == (after2 if slot2 == n2 - 1 else
                                          after2 + (n2 - 2 - slot2) * eb_est(self) + self._blooms[n2 - 1]._els_added))
    assert implies(not dropped, g_rot(self, hx, slot2, after2, age2))
    assert implies(not dropped, exp_reports(self, hx))
'''
_WPARAMS = {"self": "obj:RotatingBloomFilter", "hx": "list[int]", "hashes": "list[int]", "force": "bool",
            "slot": "int", "after": "int", "age": "int"}
_WREQ = _R + ["len(hx) >= bloom_k(eb_est(self), bloom_m(eb_est(self), f32(eb_fpr(self))))",
              "g_rot(self, hx, slot, after, age)"]
_EFF = "(force or not exp_reports(self, hashes))"
_FULL = "self._blooms[len(self._blooms) - 1]._els_added == eb_est(self)"
_ROOM = "len(self._blooms) < self._queue_size"
for _name, _case in (("duplicate_add", "not " + _EFF),
                     ("insert_without_rotation", _EFF + " and not (" + _FULL + ")"),
                     ("rotation_with_room", _EFF + " and " + _FULL + " and " + _ROOM),
                     ("rotation_dropping_the_oldest", _EFF + " and " + _FULL + " and not (" + _ROOM + ")")):
    lemma("P.C10.window_step." + _name, _WINDOW, properties=["C10"], params=_WPARAMS, requires=_WREQ + [("case", _case)])

lemma("P.C09_C10.case_splits_are_exhaustive", '''
def lemma(eff, full, room):
    assert (not eff) or (eff and not full) or (eff and full)
    assert (not eff) or (eff and not full) or (eff and full and room) or (eff and full and not room)
''', properties=["C09", "C10"], params={"eff": "bool", "full": "bool", "room": "bool"})
