"""C11 - the file of an on-disk Bloom filter is always a valid, current export; close + reopen keeps everything"""
from pyvc.api import lemma

_OPEN = ["disk_consistent(self)", "fp_open(self)", "not self._BloomFilterOnDisk__file_pointer.haspend",
         "0 <= self._els_added < 2**64 - 1", "self._filepath == resolve(self._filepath)",
         "le_bytes(self._bloom, self._bloom_length + 8, 8) == self._els_added"]

lemma("P.C11.close_then_reopen_keeps_cells_and_count", '''
def lemma(self, hf):
    n_before = self._els_added
    b0 = bytes(self)
    length = self._bloom_length
    self.close()
    g = BloomFilterOnDisk(self._filepath, None, None, None, hf)
    assert g._els_added == n_before
    assert g._num_bits == self._num_bits and g._number_hashes == self._number_hashes and g._bloom_length == length
    assert all(g._bloom[i] == b0[i] for i in range(0, length))
    assert le_bytes(g._bloom, g._bloom_length + 8, 8) == n_before
    g.close()
    assert le_bytes(file_bytes(g._filepath), g._bloom_length + 8, 8) == n_before
''', properties=["C11", "C14", "C05"], params={"self": "obj:BloomFilterOnDisk", "hf": "opt[hashfunc]"}, requires=_OPEN)

lemma("P.C11.added_key_is_reported_after_close_and_reopen", '''
def lemma(self, hashes, hf):
    self.add_alt(hashes)
    assert self.check_alt(hashes)
    self.close()
    g = BloomFilterOnDisk(self._filepath, None, None, None, hf)
    assert g.check_alt(hashes)
    assert g._els_added == self._els_added
''', properties=["C11", "C01"], params={"self": "obj:BloomFilterOnDisk", "hashes": "list[int]", "hf": "opt[hashfunc]"},
      requires=_OPEN + ["len(hashes) >= self._number_hashes"])

lemma("P.C11.add_keeps_the_file_current", '''
def lemma(self, hashes):
    self.add_alt(hashes)
    assert le_bytes(self._bloom, self._bloom_length + 8, 8) == self._els_added
    assert disk_consistent(self)
''', properties=["C11", "C14"], params={"self": "obj:BloomFilterOnDisk", "hashes": "list[int]"},
      requires=_OPEN + ["len(hashes) >= self._number_hashes"])
