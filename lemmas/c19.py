"""C19 - clear() makes a structure indistinguishable from a freshly constructed one (queries-change-nothing is the
frame part of every query contract plus the syntactic may-write closure)"""
from pyvc.api import lemma

lemma("P.C19.bloom_clear_equals_fresh", '''
def lemma(self):
    self.clear()
    fresh = BloomFilter(self._est_elements, self._fpr, None, None, self._hash_func)
    assert fresh._num_bits == self._num_bits and fresh._number_hashes == self._number_hashes
    assert fresh._bloom_length == self._bloom_length and fresh._est_elements == self._est_elements and fresh._fpr == self._fpr
    assert fresh._els_added == self._els_added and fresh._hash_func == self._hash_func
    assert all(fresh._bloom[b] == self._bloom[b] for b in range(0, self._bloom_length))
''', properties=["C19"], params={"self": "obj:BloomFilter"},
      requires=["inv_bloom_mem(self)", "geo_bloom(self)", "self._num_bits < 2**53"])

lemma("P.C19.sketch_clear_equals_fresh", '''
def lemma(self):
    self.clear()
    fresh = CountMinSketch(cw(self), cd(self), None, None, None, self._hash_function)
    assert cw(fresh) == cw(self) and cd(fresh) == cd(self) and ctotal(fresh) == ctotal(self)
    assert all(fresh._bins[x] == self._bins[x] for x in range(0, cw(self) * cd(self)))
''', properties=["C19"], params={"self": "obj:CountMinSketch"}, requires=["inv_cms(self)"])

lemma("P.C19.heavy_hitters_clear_equals_fresh", '''
def lemma(self):
    self.clear()
    fresh = HeavyHitters(self._HeavyHitters__num_hitters, cw(self), cd(self), None, None, None, self._hash_function)
    assert cw(fresh) == cw(self) and cd(fresh) == cd(self) and ctotal(fresh) == ctotal(self)
    assert all(fresh._bins[x] == self._bins[x] for x in range(0, cw(self) * cd(self)))
    assert fresh._HeavyHitters__top_x == self._HeavyHitters__top_x
    assert fresh._HeavyHitters__top_x_size == self._HeavyHitters__top_x_size
    assert fresh._HeavyHitters__smallest == self._HeavyHitters__smallest
    assert fresh._HeavyHitters__num_hitters == self._HeavyHitters__num_hitters
''', properties=["C19"], params={"self": "obj:HeavyHitters"}, requires=["inv_cms(self)"])

lemma("P.C19.stream_threshold_clear_equals_fresh", '''
def lemma(self):
    self.clear()
    fresh = StreamThreshold(self._StreamThreshold__threshold, cw(self), cd(self), None, None, None, self._hash_function)
    assert cw(fresh) == cw(self) and cd(fresh) == cd(self) and ctotal(fresh) == ctotal(self)
    assert all(fresh._bins[x] == self._bins[x] for x in range(0, cw(self) * cd(self)))
    assert fresh._StreamThreshold__meets_threshold == self._StreamThreshold__meets_threshold
    assert fresh._StreamThreshold__threshold == self._StreamThreshold__threshold
''', properties=["C19"], params={"self": "obj:StreamThreshold"}, requires=["inv_cms(self)"])

lemma("P.C19.bitarray_clear_equals_fresh", '''
def lemma(self):
    self.clear()
    fresh = Bitarray(self._size)
    assert fresh._size == self._size and fresh._size_bytes == self._size_bytes
    assert all(fresh._bitarray[b] == self._bitarray[b] for b in range(0, self._size_bytes))
''', properties=["C19", "C20"], params={"self": "obj:Bitarray"}, requires=["inv_bitarray(self)", "self._size < 2**53"])

lemma("P.C19.queries_leave_a_bloom_filter_unchanged", '''
def lemma(self, key, hashes, second):
    b0 = bytes(self)
    a = self.check(key)
    c = self.check_alt(hashes)
    d = self.hashes(key, None)
    e = self.estimate_elements()
    f = self.current_false_positive_rate()
    g = self.jaccard_index(second)
    u = self.union(second)
    i = self.intersection(second)
    b1 = bytes(self)
    assert len(b1) == len(b0)
    assert all(b1[q] == b0[q] for q in range(0, len(self._bloom)))
''', properties=["C19"], params={"self": "obj:BloomFilter", "key": "key", "hashes": "list[int]", "second": "obj:BloomFilter"},
      requires=["inv_bloom_mem(self)", "geo_bloom(self)", "self._num_bits < 2**53", "inv_bloom(second)",
                "len(hashes) >= self._number_hashes", "0 <= self._est_elements < 2**64 and 0 <= self._els_added < 2**64",
                "len(strategy(self._hash_func, key, self._number_hashes)) >= self._number_hashes"])
