"""CountingBloomFilter (C08, C12, C13, C14, C16, C19)"""
from pyvc.api import classinfo, contract
from .bloom import BLOOM_FIELDS

classinfo("CountingBloomFilter", "probables.blooms.countingbloom",
          dict(BLOOM_FIELDS, _bloom="array:I", _filepath="any"), bases=["BloomFilter"], inv="inv_cbloom(self)",
          consts={"_typecode": "I", "_bits_per_elm": 1.0})

from pyvc.api import CONTRACTS  # noqa: E402
CONTRACTS["BloomFilter.hashes"].contexts.append("CountingBloomFilter")

_H = [("inv", "inv_cbloom(self)"), ("exactly_number_hashes_values", "len(hashes) >= self._number_hashes")]

contract("CountingBloomFilter.add_alt", contexts=["CountingBloomFilter"], properties=["C08", "C16", "C14", "C12", "C06"],
         params={"hashes": "list[int]", "num_els": "int"}, returns="int",
         requires=_H + [("positive_amount", "num_els >= 1"), ("counter_nonneg", "self._els_added >= 0")],
         modifies=["self._bloom", "self._els_added"],
         ensures=[("cells_saturating_add_with_multiplicity",
                   "all(self._bloom[c] == sat32(old(self._bloom[c]) + wsum(hashes, self._number_hashes, self._bloom_length, c, num_els)) "
                   "for c in range(0, self._bloom_length))"),
                  ("counter_saturating_add", "self._els_added == (old(self._els_added) + num_els if "
                                             "old(self._els_added) + num_els <= 18446744073709551615 else 18446744073709551615)"),
                  ("inv", "inv_cbloom(self)"),
                  ("result_in_range", "0 <= result <= 4294967295")],
         loops={0: {"invariant": [
             ("cells", "all(self._bloom[c] == sat32(old(self._bloom[c]) + wsum(hashes, _i, self._bloom_length, c, num_els)) "
                       "for c in range(0, self._bloom_length))"),
             ("weights_nonneg", "all(wsum(hashes, _i, self._bloom_length, c, num_els) >= 0 for c in range(0, self._bloom_length))"),
             ("vals_len", "len(vals) == self._number_hashes"),
             ("vals_range", "all(0 <= vals[j] for j in range(0, len(vals)))"),
             ("vals_done_range", "all(vals[j] <= 4294967295 or j >= _i for j in range(0, len(vals)))"),
             ("vals_todo", "all(vals[j] == old(self._bloom[hashes[j] % self._bloom_length]) + num_els "
                           "for j in range(_i, len(vals)))")]}})

contract("CountingBloomFilter.check_alt", contexts=["CountingBloomFilter"], properties=["C08", "C19", "C06"],
         params={"hashes": "list[int]"}, returns="int",
         requires=[("inv", "inv_cbloom(self)"), ("nonempty", "len(hashes) >= 1")],
         modifies=[],
         ensures=[("is_a_cell_of_the_key", "any(result == self._bloom[hashes[j] % self._num_bits] for j in range(0, len(hashes)))"),
                  ("minimum_over_the_keys_cells", "all(result <= self._bloom[hashes[j] % self._num_bits] for j in range(0, len(hashes)))")])

_MV = "min(self._bloom[hashes[j] % self._bloom_length] for j in range(0, self._number_hashes))"
_NOOP = "(mv0 == 4294967295 or mv0 == 0)"

contract("CountingBloomFilter.remove_alt", contexts=["CountingBloomFilter"], properties=["C08", "C16", "C14", "C06"],
         params={"hashes": "list[int]", "num_els": "int"}, returns="int",
         let=[("mv0", _MV), ("t0", "(num_els if mv0 > num_els else mv0)")],
         requires=_H + [("positive_amount", "num_els >= 1"),
                        ("removal_is_legitimate",
                         _NOOP + " or all(self._bloom[c] == 4294967295 or self._bloom[c] >= "
                         "wsum(hashes, self._number_hashes, self._bloom_length, c, t0) for c in range(0, self._bloom_length))")],
         modifies=["self._bloom", "self._els_added"],
         ensures=[("reports_what_is_left", "result == (mv0 if " + _NOOP + " else mv0 - t0)"),
                  ("absent_or_saturated_key_changes_nothing",
                   "implies(" + _NOOP + ", self._els_added == old(self._els_added) and "
                   "all(self._bloom[c] == old(self._bloom[c]) for c in range(0, self._bloom_length)))"),
                  ("cells_decrease_with_multiplicity_saturated_cells_kept",
                   "implies(not " + _NOOP + ", all(self._bloom[c] == (old(self._bloom[c]) if old(self._bloom[c]) == 4294967295 "
                   "else old(self._bloom[c]) - wsum(hashes, self._number_hashes, self._bloom_length, c, t0)) "
                   "for c in range(0, self._bloom_length)))"),
                  ("counter_decreases_by_removed_amount",
                   "implies(not " + _NOOP + ", self._els_added == old(self._els_added) - t0)"),
                  ("inv", "inv_cbloom(self)")],
         loops={0: {"invariant": [
             ("cells", "all(self._bloom[c] == (old(self._bloom[c]) if old(self._bloom[c]) == 4294967295 else "
                       "old(self._bloom[c]) - wsum(hashes, _i, self._bloom_length, c, t0)) for c in range(0, self._bloom_length))"),
             ("budget", "all(old(self._bloom[c]) == 4294967295 or (self._bloom[c] >= "
                        "wsum_range(hashes, _i, self._number_hashes, self._bloom_length, c, t0) and "
                        "wsum_range(hashes, _i + 1, self._number_hashes, self._bloom_length, c, t0) >= 0) "
                        "for c in range(0, self._bloom_length))"),
             ("amount", "to_remove == t0 and t0 >= 1 and not " + _NOOP)]}})

from .bloom import _PARAMS_ONLY, _INIT_RAISES  # noqa: E402

_CFRESH = [("geometry", "self._est_elements == est_elements and self._fpr == f32(false_positive_rate) and "
                        "self._num_bits == bloom_m(est_elements, f32(false_positive_rate)) and "
                        "self._number_hashes == bloom_k(est_elements, self._num_bits)"),
           ("inv", "inv_cbloom(self)"),
           ("empty", "self._els_added == 0 and all(self._bloom[b] == 0 for b in range(0, self._bloom_length))"),
           ("hash_function_kept_or_default",
            "self._hash_func == (hash_function if hash_function is not None else default_fnv_1a)")]

contract("CountingBloomFilter._load_init", contexts=["CountingBloomFilter"], properties=["C08", "C12", "C13", "C19"],
         params={"filepath": "none", "hash_function": "opt[hashfunc]", "hex_string": "none",
                 "est_elements": "opt[int]", "false_positive_rate": "opt[float]"},
         requires=_PARAMS_ONLY, raises=_INIT_RAISES,
         modifies=["self._est_elements", "self._fpr", "self._bloom_length", "self._hash_func", "self._els_added",
                   "self._number_hashes", "self._num_bits", "self._bloom", "self._bits_per_elm", "self._type",
                   "self._typecode"],
         ensures=_CFRESH + [("counting", "self._typecode == 'I' and self._bits_per_elm == 1.0")])

contract("CountingBloomFilter.__init__", contexts=["CountingBloomFilter"], properties=["C08", "C12", "C13", "C19"],
         params={"est_elements": "opt[int]", "false_positive_rate": "opt[float]", "filepath": "none",
                 "hex_string": "none", "hash_function": "opt[hashfunc]"},
         requires=_PARAMS_ONLY, raises=_INIT_RAISES, modifies=["self"],
         ensures=_CFRESH + [("counting", "self._typecode == 'I' and self._bits_per_elm == 1.0 and self._on_disk == False")])

_KEYREQ = [("inv", "inv_cbloom(self)"),
           ("strategy_returns_exactly_number_hashes",
            "len(strategy(self._hash_func, key, self._number_hashes)) == self._number_hashes")]
_HK = "strategy(self._hash_func, key, self._number_hashes)"

contract("CountingBloomFilter.add", contexts=["CountingBloomFilter"], properties=["C08", "C16", "C14"],
         params={"key": "key", "num_els": "int"}, returns="int",
         requires=_KEYREQ + [("positive_amount", "num_els >= 1"), ("counter_nonneg", "self._els_added >= 0")],
         modifies=["self._bloom", "self._els_added"],
         ensures=[("cells_saturating_add_with_multiplicity",
                   "all(self._bloom[c] == sat32(old(self._bloom[c]) + wsum(" + _HK + ", self._number_hashes, self._bloom_length, c, num_els)) "
                   "for c in range(0, self._bloom_length))"),
                  ("counter_saturating_add", "self._els_added == (old(self._els_added) + num_els if "
                                             "old(self._els_added) + num_els <= 18446744073709551615 else 18446744073709551615)"),
                  ("inv", "inv_cbloom(self)")])

contract("CountingBloomFilter.check", contexts=["CountingBloomFilter"], properties=["C08", "C19"],
         params={"key": "key"}, returns="int",
         requires=_KEYREQ, modifies=[],
         ensures=[("is_a_cell_of_the_key", "any(result == self._bloom[" + _HK + "[j] % self._num_bits] for j in range(0, self._number_hashes))"),
                  ("minimum_over_the_keys_cells", "all(result <= self._bloom[" + _HK + "[j] % self._num_bits] for j in range(0, self._number_hashes))")])

contract("CountingBloomFilter._cnt_number_bits_set", contexts=["CountingBloomFilter"], properties=["C14", "C19", "C13"],
         returns="int", requires=["inv_cbloom(self)"], modifies=[],
         ensures=[("number_of_nonzero_cells", "result == nonzero_cells(self._bloom, len(self._bloom))")])

contract("CountingBloomFilter.estimate_elements", contexts=["CountingBloomFilter"], properties=["C14", "C19"],
         returns="int", requires=["inv_cbloom(self)"], modifies=[],
         ensures=[("standard_estimate",
                   "result == (-1 if nonzero_cells(self._bloom, len(self._bloom)) >= self._num_bits else "
                   "est_elements_formula(self._num_bits, self._number_hashes, nonzero_cells(self._bloom, len(self._bloom))))")])

contract("CountingBloomFilter._verify_bloom_similarity", contexts=["CountingBloomFilter"], properties=["C13", "C12"],
         params={"second": "obj:CountingBloomFilter"}, returns="bool", modifies=[], alias_cases=[("second", "self")],
         ensures=[("compatible_iff_same_hash_count_bit_count_and_probe_hash", "result == compatible_blooms(self, second)")])

contract("probables.blooms.countingbloom._verify_not_type_mismatch", kind="function", properties=["C13"],
         params={"second": "obj:CountingBloomFilter"}, returns="bool", variants=[{"second": "foreign"}], modifies=[],
         ensures=[("is_a_counting_bloom_filter", "result == isinstance(second, CountingBloomFilter)")])

_CSET_REQ = [("receiver_inv", "inv_cbloom(self)"), ("receiver_geometry", "geo_bloom(self)"),
             ("bits_below_2_53", "self._num_bits < 2**53"),
             ("second_inv", "not isinstance(second, CountingBloomFilter) or inv_cbloom(second)")]
_CSET_RAISES = {"TypeError": "not isinstance(second, CountingBloomFilter)"}
_CRES = [("none_iff_incompatible", "(result is None) == (not compatible_blooms(self, second))"),
         ("same_geometry", "implies(result is not None, result._num_bits == self._num_bits and "
                           "result._number_hashes == self._number_hashes and result._bloom_length == self._bloom_length "
                           "and result._est_elements == self._est_elements and result._fpr == self._fpr and "
                           "result._hash_func == self._hash_func)"),
         ("result_inv", "implies(result is not None, inv_cbloom(result))")]

contract("CountingBloomFilter.union", contexts=["CountingBloomFilter"], properties=["C12", "C13", "C16", "C19"],
         params={"second": "obj:CountingBloomFilter"}, returns="opt[obj:CountingBloomFilter]",
         requires=_CSET_REQ, raises=_CSET_RAISES, modifies=[], alias_cases=[("second", "self")],
         variants=[{"second": "foreign"}],
         ensures=_CRES + [("cells_saturating_sum", "implies(result is not None, all(result._bloom[c] == "
                                                   "sat32(self._bloom[c] + second._bloom[c]) for c in range(0, self._bloom_length)))")],
         loops={0: {"invariant": [("prefix", "all(res._bloom[c] == sat32(self._bloom[c] + second._bloom[c]) for c in range(0, _i))")]}})

contract("CountingBloomFilter.intersection", contexts=["CountingBloomFilter"], properties=["C13", "C16", "C19"],
         params={"second": "obj:CountingBloomFilter"}, returns="opt[obj:CountingBloomFilter]",
         requires=_CSET_REQ, raises=_CSET_RAISES, modifies=[], alias_cases=[("second", "self")],
         variants=[{"second": "foreign"}],
         ensures=_CRES + [("cells_saturating_sum_where_both_positive",
                           "implies(result is not None, all(result._bloom[c] == "
                           "(sat32(self._bloom[c] + second._bloom[c]) if (self._bloom[c] > 0 and second._bloom[c] > 0) else 0) "
                           "for c in range(0, self._bloom_length)))")],
         loops={0: {"invariant": [("prefix", "all(res._bloom[c] == (sat32(self._bloom[c] + second._bloom[c]) if "
                                             "(self._bloom[c] > 0 and second._bloom[c] > 0) else 0) for c in range(0, _i))"),
                                  ("rest_zero", "all(res._bloom[c] == 0 for c in range(_i, self._bloom_length))")]}})

contract("CountingBloomFilter.jaccard_index", contexts=["CountingBloomFilter"], properties=["C13", "C19"],
         params={"second": "obj:CountingBloomFilter"}, returns="opt[float]",
         requires=[("receiver_inv", "inv_cbloom(self)"),
                   ("second_inv", "not isinstance(second, CountingBloomFilter) or inv_cbloom(second)")],
         raises=_CSET_RAISES, modifies=[], alias_cases=[("second", "self")], variants=[{"second": "foreign"}],
         let=[("U0", "sum((1 if (self._bloom[i] > 0 or second._bloom[i] > 0) else 0) for i in range(0, self._bloom_length))"),
              ("I0", "sum((1 if (self._bloom[i] > 0 and second._bloom[i] > 0) else 0) for i in range(0, self._bloom_length))")],
         ensures=[("none_iff_incompatible", "(result is None) == (not compatible_blooms(self, second))"),
                  ("ratio_of_occupied_positions", "implies(result is not None, result == (1.0 if U0 == 0 else I0 / U0))"),
                  ("between_0_and_1", "implies(result is not None, 0.0 <= result <= 1.0)")],
         loops={0: {"invariant": [
             ("union_count", "count_union == sum((1 if (self._bloom[i] > 0 or second._bloom[i] > 0) else 0) for i in range(0, _i))"),
             ("inter_count", "count_inter == sum((1 if (self._bloom[i] > 0 and second._bloom[i] > 0) else 0) for i in range(0, _i))"),
             ("ordered", "0 <= count_inter <= count_union")]}})

# the base-class constructor body executed with a counting receiver (super().__init__ from CountingBloomFilter)
contract("BloomFilter.__init__@CountingBloomFilter", contexts=["CountingBloomFilter"], properties=["C08", "C12", "C13", "C19"],
         params={"est_elements": "opt[int]", "false_positive_rate": "opt[float]", "filepath": "none",
                 "hex_string": "none", "hash_function": "opt[hashfunc]"},
         requires=_PARAMS_ONLY, raises=_INIT_RAISES, modifies=["self"],
         ensures=_CFRESH + [("counting", "self._typecode == 'I' and self._bits_per_elm == 1.0 and self._on_disk == False")])

contract("CountingBloomFilter.remove", contexts=["CountingBloomFilter"], properties=["C08", "C16", "C14"],
         params={"key": "key", "num_els": "int"}, returns="int",
         let=[("mv0", "min(self._bloom[" + _HK + "[j] % self._bloom_length] for j in range(0, self._number_hashes))"),
              ("t0", "(num_els if mv0 > num_els else mv0)")],
         requires=_KEYREQ + [("positive_amount", "num_els >= 1"),
                             ("removal_is_legitimate",
                              _NOOP + " or all(self._bloom[c] == 4294967295 or self._bloom[c] >= "
                              "wsum(" + _HK + ", self._number_hashes, self._bloom_length, c, t0) for c in range(0, self._bloom_length))")],
         modifies=["self._bloom", "self._els_added"],
         ensures=[("reports_what_is_left", "result == (mv0 if " + _NOOP + " else mv0 - t0)"),
                  ("absent_or_saturated_key_changes_nothing",
                   "implies(" + _NOOP + ", self._els_added == old(self._els_added) and "
                   "all(self._bloom[c] == old(self._bloom[c]) for c in range(0, self._bloom_length)))"),
                  ("cells_decrease_with_multiplicity_saturated_cells_kept",
                   "implies(not " + _NOOP + ", all(self._bloom[c] == (old(self._bloom[c]) if old(self._bloom[c]) == 4294967295 "
                   "else old(self._bloom[c]) - wsum(" + _HK + ", self._number_hashes, self._bloom_length, c, t0)) "
                   "for c in range(0, self._bloom_length)))"),
                  ("counter_decreases_by_removed_amount",
                   "implies(not " + _NOOP + ", self._els_added == old(self._els_added) - t0)"),
                  ("inv", "inv_cbloom(self)")])
