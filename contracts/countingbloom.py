"""CountingBloomFilter (C08, C12, C13, C14, C16, C19)"""
from pyvc.api import classinfo, contract
from .bloom import BLOOM_FIELDS

classinfo("CountingBloomFilter", "probables.blooms.countingbloom",
          dict(BLOOM_FIELDS, _bloom="array:I", _filepath="any"), bases=["BloomFilter"], inv="inv_cbloom(self)",
          consts={"_typecode": "I", "_bits_per_elm": 1.0})

_H = [("inv", "inv_cbloom(self)"), ("exactly_number_hashes_values", "len(hashes) >= self._number_hashes")]

contract("CountingBloomFilter.add_alt", contexts=["CountingBloomFilter"], properties=["C08", "C16", "C14", "C12"],
         params={"hashes": "list[int]", "num_els": "int"}, returns="int",
         requires=_H + [("positive_amount", "num_els >= 1"), ("counter_nonneg", "self._els_added >= 0")],
         modifies=["self._bloom", "self._els_added"],
         ensures=[("cells_saturating_add_with_multiplicity",
                   "all(self._bloom[c] == sat32(old(self._bloom[c]) + wsum(hashes, self._number_hashes, self._bloom_length, c, num_els)) "
                   "for c in range(0, self._bloom_length))"),
                  ("counter_saturating_add", "self._els_added == (old(self._els_added) + num_els if "
                                             "old(self._els_added) + num_els <= 18446744073709551615 else 18446744073709551615)"),
                  ("inv", "inv_cbloom(self)"),
                  ("result_in_range", "0 <= result <= 4294967295")],
         loops={0: {"invariant": [
             ("cells", "all(self._bloom[c] == sat32(old(self._bloom[c]) + wsum(hashes, _i, self._bloom_length, c, num_els)) "
                       "for c in range(0, self._bloom_length))"),
             ("weights_nonneg", "all(wsum(hashes, _i, self._bloom_length, c, num_els) >= 0 for c in range(0, self._bloom_length))"),
             ("vals_len", "len(vals) == self._number_hashes"),
             ("vals_range", "all(0 <= vals[j] for j in range(0, len(vals)))"),
             ("vals_done_range", "all(vals[j] <= 4294967295 or j >= _i for j in range(0, len(vals)))"),
             ("vals_todo", "all(vals[j] == old(self._bloom[hashes[j] % self._bloom_length]) + num_els "
                           "for j in range(_i, len(vals)))")]}})

contract("CountingBloomFilter.check_alt", contexts=["CountingBloomFilter"], properties=["C08", "C19"],
         params={"hashes": "list[int]"}, returns="int",
         requires=[("inv", "inv_cbloom(self)"), ("nonempty", "len(hashes) >= 1")],
         modifies=[],
         ensures=[("is_a_cell_of_the_key", "any(result == self._bloom[hashes[j] % self._num_bits] for j in range(0, len(hashes)))"),
                  ("minimum_over_the_keys_cells", "all(result <= self._bloom[hashes[j] % self._num_bits] for j in range(0, len(hashes)))")])
