"""CountingCuckooFilter (C03, C08, C14, C15): contracts evaluated NATIVELY only.

The verifier has no model of lists of lists of objects holding arrays (bins), so these functions are outside its
subset: check.py runs the real functions against these contracts in a small scope and reports them as a labelled
bounded stand-in (never counted as proved)."""
from pyvc.api import contract

_REQ = [("well_formed", "cc_wellformed(self)"), ("count_below_uint32", "all(v < 2**32 - 1 for v in cc_counts(self).values())")]
_ERR = {"CuckooFilterFullError": {"when": "True", "must": False, "state": "any",
                                  "ensures": [("every_count_is_kept", "cc_counts(self) == old(cc_counts(self))"),
                                              ("well_formed", "cc_wellformed(self)")]}}

contract("CountingCuckooFilter.add", contexts=["CountingCuckooFilter"], bounded_only=True, properties=["C03", "C08", "C14", "C15"],
         params={"key": "key"}, requires=_REQ, raises=_ERR, modifies=["self"],
         ensures=[("count_of_the_keys_fingerprint_plus_one_nothing_else_changes",
                   "cc_counts(self) == dict_plus(old(cc_counts(self)), cc_fp(self, key), 1)"),
                  ("well_formed", "cc_wellformed(self)")])

contract("CountingCuckooFilter.check", contexts=["CountingCuckooFilter"], bounded_only=True, properties=["C08", "C19"],
         params={"key": "key"}, returns="int", requires=_REQ, modifies=[],
         ensures=[("outstanding_additions_of_the_fingerprint", "result == cc_counts(self).get(cc_fp(self, key), 0)")])

contract("CountingCuckooFilter.remove", contexts=["CountingCuckooFilter"], bounded_only=True, properties=["C08", "C14", "C15"],
         params={"key": "key"}, returns="bool", requires=_REQ, modifies=["self"],
         ensures=[("says_whether_it_was_present", "result == (cc_fp(self, key) in old(cc_counts(self)))"),
                  ("count_minus_one_or_nothing",
                   "cc_counts(self) == (dict_plus(old(cc_counts(self)), cc_fp(self, key), -1) if result else old(cc_counts(self)))"),
                  ("well_formed", "cc_wellformed(self)")])

contract("CountingCuckooFilter.expand", contexts=["CountingCuckooFilter"], bounded_only=True, properties=["C03", "C08", "C14", "C15"],
         requires=_REQ, raises=_ERR, modifies=["self"],
         ensures=[("every_count_is_kept", "cc_counts(self) == old(cc_counts(self))"),
                  ("capacity_multiplied", "self._cuckoo_capacity == old(self._cuckoo_capacity) * self._CuckooFilter__expansion_rate"),
                  ("well_formed", "cc_wellformed(self)")])
