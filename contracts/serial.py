"""Export / load (C05, C06): stream model"""
from pyvc.api import contract

_EXP_REQ = [("inv", "inv_bloom_mem(self)"), ("counters_fit_uint64", "0 <= self._est_elements < 2**64 and 0 <= self._els_added < 2**64")]

contract("BloomFilter.export", contexts=["BloomFilter"], properties=["C05", "C06", "C19", "C01"],
         params={"file": "stream"}, requires=_EXP_REQ, modifies=["file"],
         ensures=[("appends_exactly_cells_plus_footer", "len(written(file)) == old(len(written(file))) + len(self._bloom) + 20"),
                  ("earlier_bytes_kept", "all(written(file)[i] == old(written(file))[i] for i in range(0, old(len(written(file)))))"),
                  ("documented_layout", "bloom_image(self, written(file), old(len(written(file))))")])

contract("BloomFilter.__bytes__", contexts=["BloomFilter"], properties=["C05", "C06", "C19", "C01"],
         returns="bytes", requires=_EXP_REQ, modifies=[],
         ensures=[("size", "len(result) == len(self._bloom) + 20"), ("documented_layout", "bloom_image(self, result, 0)")])

_GEOM_OK = ("0 < f32_at(d, 16) < 1 and le_bytes(d, 0, 8) >= 1 and "
            "bloom_k(le_bytes(d, 0, 8), bloom_m(le_bytes(d, 0, 8), f32_at(d, 16))) >= 1")

contract("BloomFilter._parse_footer", kind="classmethod", contexts=["BloomFilter", "CountingBloomFilter"],
         properties=["C05", "C06", "C01", "C07"],
         params={"stct": "struct:QQf", "d": "bytes"}, returns="tuple[int,int,float,int,int]",
         requires=[("twenty_bytes", "len(d) >= 20"), ("stored_geometry_usable", _GEOM_OK)],
         modifies=[],
         ensures=[("estimated_elements_field", "result[0] == le_bytes(d, 0, 8)"),
                  ("elements_added_field", "result[1] == le_bytes(d, 8, 8)"),
                  ("rate_field", "result[2] == f32_at(d, 16)"),
                  ("geometry_rederived_as_the_constructor_does",
                   "result[4] == bloom_m(result[0], result[2]) and result[3] == bloom_k(result[0], result[4])"),
                  ("usable", "result[3] >= 1 and result[4] >= 1")])

_LOAD_REQ = [("has_footer", "len(file) >= 20"),
             ("stored_geometry_usable",
              "0 < f32_at(file, len(file) - 4) < 1 and le_bytes(file, len(file) - 20, 8) >= 1 and "
              "bloom_k(le_bytes(file, len(file) - 20, 8), bloom_m(le_bytes(file, len(file) - 20, 8), f32_at(file, len(file) - 4))) >= 1 and "
              "bloom_m(le_bytes(file, len(file) - 20, 8), f32_at(file, len(file) - 4)) < 2**53"),
             ("cells_present", "len(file) >= 20 + cdiv(bloom_m(le_bytes(file, len(file) - 20, 8), f32_at(file, len(file) - 4)), 8)"),
             ("in_memory_byte_cells", "self._typecode == 'B' and self._bits_per_elm == 8.0")]
_LOADED = [("estimated_elements", "self._est_elements == le_bytes(file, len(file) - 20, 8)"),
           ("elements_added", "self._els_added == le_bytes(file, len(file) - 12, 8)"),
           ("rate", "self._fpr == f32_at(file, len(file) - 4)"),
           ("geometry", "geo_bloom(self)"), ("inv", "inv_bloom_mem(self)"),
           ("cells", "all(self._bloom[i] == file[i] for i in range(0, self._bloom_length))"),
           ("hash_function_kept_or_default",
            "self._hash_func == (hash_function if hash_function is not None else default_fnv_1a)")]

contract("BloomFilter._load", contexts=["BloomFilter"], properties=["C05", "C06", "C01", "C07"],
         params={"file": "bytes", "hash_function": "opt[hashfunc]"}, variants=[{"file": "mmap"}],
         requires=_LOAD_REQ,
         modifies=["self._est_elements", "self._fpr", "self._bloom_length", "self._hash_func", "self._els_added",
                   "self._number_hashes", "self._num_bits", "self._bloom"],
         ensures=_LOADED)

contract("BloomFilter._parse_bloom_array", contexts=["BloomFilter"], properties=["C05", "C06", "C01"],
         params={"b": "bytes", "offset": "int"}, variants=[{"b": "mmap"}],
         requires=[("enough_bytes", "0 <= offset <= len(b)"), ("byte_cells", "self._typecode == 'B'")],
         modifies=["self._bloom"],
         ensures=[("cells_are_the_first_bytes", "len(self._bloom) == offset and all(self._bloom[i] == b[i] for i in range(0, offset))")])

contract("BloomFilter.frombytes", kind="classmethod", contexts=["BloomFilter"], properties=["C05", "C06", "C01", "C07"],
         params={"b": "bytes", "hash_function": "opt[hashfunc]"}, returns="obj:BloomFilter",
         requires=[r if not isinstance(r, tuple) else (r[0], r[1].replace("file", "b")) for r in _LOAD_REQ[:3]],
         modifies=[],
         ensures=[(n, t.replace("self.", "result.").replace("file", "b").replace("geo_bloom(self)", "geo_bloom(result)")
                   .replace("inv_bloom_mem(self)", "inv_bloom_mem(result)")) for n, t in _LOADED])

# ---- count-min sketch ---------------------------------------------------------------------------------------------
_CEXP_REQ = [("inv", "inv_cms(self)"), ("geometry_fits_uint32", "cw(self) < 2**32 and cd(self) < 2**32")]
_CMS_ALL = ["CountMinSketch", "CountMeanSketch", "CountMeanMinSketch", "HeavyHitters", "StreamThreshold"]

contract("CountMinSketch.export", contexts=_CMS_ALL, properties=["C05", "C06", "C19"],
         params={"file": "stream"}, requires=_CEXP_REQ, modifies=["file"],
         ensures=[("appends_exactly_cells_plus_footer", "len(written(file)) == old(len(written(file))) + 4 * cw(self) * cd(self) + 16"),
                  ("earlier_bytes_kept", "all(written(file)[i] == old(written(file))[i] for i in range(0, old(len(written(file)))))"),
                  ("documented_layout", "cms_image(self, written(file), old(len(written(file))))")])

contract("CountMinSketch.__bytes__", contexts=_CMS_ALL, properties=["C05", "C06", "C19"],
         returns="bytes", requires=_CEXP_REQ, modifies=[],
         ensures=[("size", "len(result) == 4 * cw(self) * cd(self) + 16"), ("documented_layout", "cms_image(self, result, 0)")])

contract("CountMinSketch._parse_footer", kind="classmethod", contexts=_CMS_ALL, properties=["C05", "C06"],
         params={"file": "bytes"}, variants=[{"file": "mmap"}], returns="tuple[int,int,int]",
         requires=[("has_footer", "len(file) >= 16")], modifies=[],
         ensures=[("width", "result[0] == le_bytes(file, len(file) - 16, 4)"),
                  ("depth", "result[1] == le_bytes(file, len(file) - 12, 4)"),
                  ("elements_added", "result[2] == i64_at(file, len(file) - 8)")])

_W = "le_bytes(file, len(file) - 16, 4)"
_D = "le_bytes(file, len(file) - 12, 4)"
contract("CountMinSketch._parse_bytes", contexts=_CMS_ALL, properties=["C05", "C06"],
         params={"file": "bytes"}, variants=[{"file": "mmap"}],
         requires=[("has_footer", "len(file) >= 16"), ("stored_geometry_usable", f"{_W} >= 1 and {_D} >= 1"),
                   ("cells_present", f"len(file) >= 16 + 4 * {_W} * {_D}"),
                   ("query_mode", "valid_query_mode(self)")],
         modifies=["self._CountMinSketch__width", "self._CountMinSketch__depth", "self._CountMinSketch__elements_added",
                   "self._CountMinSketch__confidence", "self._CountMinSketch__error_rate", "self._bins"],
         ensures=[("geometry", f"cw(self) == {_W} and cd(self) == {_D}"),
                  ("elements_added", "ctotal(self) == i64_at(file, len(file) - 8)"),
                  ("cells", "len(self._bins) == cw(self) * cd(self) and "
                            "all(self._bins[c] == i32_at(file, 4 * c) for c in range(0, cw(self) * cd(self)))"),
                  ("inv", "inv_cms(self)")])

contract("CountMinSketch.frombytes", kind="classmethod", contexts=["CountMinSketch", "CountMeanSketch", "CountMeanMinSketch"],
         properties=["C05", "C06", "C02"],
         params={"b": "bytes", "hash_function": "opt[hashfunc]"}, returns="obj:CountMinSketch",
         requires=[("has_footer", "len(b) >= 16"),
                   ("stored_geometry_usable", "le_bytes(b, len(b) - 16, 4) >= 1 and le_bytes(b, len(b) - 12, 4) >= 1"),
                   ("cells_present", "len(b) >= 16 + 4 * le_bytes(b, len(b) - 16, 4) * le_bytes(b, len(b) - 12, 4)")],
         modifies=[],
         ensures=[("geometry", "cw(result) == le_bytes(b, len(b) - 16, 4) and cd(result) == le_bytes(b, len(b) - 12, 4)"),
                  ("elements_added", "ctotal(result) == i64_at(b, len(b) - 8)"),
                  ("cells", "len(result._bins) == cw(result) * cd(result) and "
                            "all(result._bins[c] == i32_at(b, 4 * c) for c in range(0, cw(result) * cd(result)))"),
                  ("inv", "inv_cms(result)"),
                  ("answers_in_the_mode_of_the_class_it_was_loaded_as",
                   "mode_of(result) == default_mode(cls)"),
                  ("hash_function_kept_or_default",
                   "result._hash_function == (hash_function if hash_function is not None else default_fnv_1a)")])


# the two tracking subclasses have their own frombytes (an extra argument, the class named explicitly)
_CMS_FB_REQ = [("has_footer", "len(b) >= 16"),
               ("stored_geometry_usable", "le_bytes(b, len(b) - 16, 4) >= 1 and le_bytes(b, len(b) - 12, 4) >= 1"),
               ("cells_present", "len(b) >= 16 + 4 * le_bytes(b, len(b) - 16, 4) * le_bytes(b, len(b) - 12, 4)")]
_CMS_FB_ENS = [("geometry", "cw(result) == le_bytes(b, len(b) - 16, 4) and cd(result) == le_bytes(b, len(b) - 12, 4)"),
               ("elements_added", "ctotal(result) == i64_at(b, len(b) - 8)"),
               ("cells", "len(result._bins) == cw(result) * cd(result) and "
                         "all(result._bins[c] == i32_at(b, 4 * c) for c in range(0, cw(result) * cd(result)))"),
               ("inv", "inv_cms(result)"),
               ("answers_in_min_mode", "is_min_mode(result)"),
               ("hash_function_kept_or_default",
                "result._hash_function == (hash_function if hash_function is not None else default_fnv_1a)")]
contract("HeavyHitters.frombytes", kind="classmethod", contexts=["HeavyHitters"], properties=["C05", "C17", "C02"],
         params={"b": "bytes", "num_hitters": "int", "hash_function": "opt[hashfunc]"}, returns="obj:HeavyHitters",
         requires=_CMS_FB_REQ, modifies=[],
         ensures=_CMS_FB_ENS + [("table_limit_is_the_resupplied_one", "result._HeavyHitters__num_hitters == num_hitters"),
                                ("empty_table", "len(result._HeavyHitters__top_x) == 0")])
contract("StreamThreshold.frombytes", kind="classmethod", contexts=["StreamThreshold"], properties=["C05", "C17", "C02"],
         params={"b": "bytes", "threshold": "int", "hash_function": "opt[hashfunc]"}, returns="obj:StreamThreshold",
         requires=_CMS_FB_REQ, modifies=[],
         ensures=_CMS_FB_ENS + [("threshold_is_the_resupplied_one", "result._StreamThreshold__threshold == threshold"),
                                ("empty_table", "len(result._StreamThreshold__meets_threshold) == 0")])


# ---- counting Bloom filter: the bodies are BloomFilter's, the cells are uint32 (C05, C06, C08) ---------------------------------
from pyvc.api import clone_contract  # noqa: E402
_CB = ["CountingBloomFilter"]
_CEXP = [("inv", "inv_cbloom(self)"), ("counters_fit_uint64", "0 <= self._est_elements < 2**64 and 0 <= self._els_added < 2**64"),
         ("cells_are_uint32", "all(0 <= self._bloom[c] < 2**32 for c in range(0, len(self._bloom)))")]
contract("BloomFilter.export@CountingBloomFilter", contexts=_CB, properties=["C05", "C06", "C08", "C19"],
         params={"file": "stream"}, requires=_CEXP, modifies=["file"],
         ensures=[("appends_exactly_cells_plus_footer", "len(written(file)) == old(len(written(file))) + 4 * len(self._bloom) + 20"),
                  ("earlier_bytes_kept", "all(written(file)[i] == old(written(file))[i] for i in range(0, old(len(written(file)))))"),
                  ("documented_layout", "cbloom_image(self, written(file), old(len(written(file))))")])
contract("BloomFilter.__bytes__@CountingBloomFilter", contexts=_CB, properties=["C05", "C06", "C08", "C19"],
         returns="bytes", requires=_CEXP, modifies=[],
         ensures=[("size", "len(result) == 4 * len(self._bloom) + 20"), ("documented_layout", "cbloom_image(self, result, 0)")])
contract("BloomFilter._parse_bloom_array@CountingBloomFilter", contexts=_CB, properties=["C05", "C06", "C08"],
         params={"b": "bytes", "offset": "int"}, variants=[{"b": "mmap"}],
         requires=[("enough_bytes", "0 <= offset <= len(b)"), ("whole_cells", "offset % 4 == 0"), ("uint32_cells", "self._typecode == 'I'")],
         modifies=["self._bloom"],
         ensures=[("cells_are_the_leading_uint32s", "4 * len(self._bloom) == offset and "
                                                    "all(self._bloom[c] == le_bytes(b, 4 * c, 4) for c in range(0, len(self._bloom)))")])

_CLOAD_REQ = [("has_footer", "len(file) >= 20"),
              ("stored_geometry_usable",
               "0 < f32_at(file, len(file) - 4) < 1 and le_bytes(file, len(file) - 20, 8) >= 1 and "
               "bloom_k(le_bytes(file, len(file) - 20, 8), bloom_m(le_bytes(file, len(file) - 20, 8), f32_at(file, len(file) - 4))) >= 1 and "
               "bloom_m(le_bytes(file, len(file) - 20, 8), f32_at(file, len(file) - 4)) < 2**53"),
              ("cells_present", "len(file) >= 20 + 4 * bloom_m(le_bytes(file, len(file) - 20, 8), f32_at(file, len(file) - 4))"),
              ("uint32_cells", "self._typecode == 'I' and self._bits_per_elm == 1.0")]
_CLOADED = [("estimated_elements", "self._est_elements == le_bytes(file, len(file) - 20, 8)"),
            ("elements_added", "self._els_added == le_bytes(file, len(file) - 12, 8)"),
            ("rate", "self._fpr == f32_at(file, len(file) - 4)"),
            ("geometry", "geo_bloom(self)"), ("inv", "inv_cbloom(self)"),
            ("cells", "all(self._bloom[c] == le_bytes(file, 4 * c, 4) for c in range(0, self._bloom_length))"),
            ("hash_function_kept_or_default",
             "self._hash_func == (hash_function if hash_function is not None else default_fnv_1a)")]
contract("BloomFilter._load@CountingBloomFilter", contexts=_CB, properties=["C05", "C06", "C08"],
         params={"file": "bytes", "hash_function": "opt[hashfunc]"}, variants=[{"file": "mmap"}],
         requires=_CLOAD_REQ,
         modifies=["self._est_elements", "self._fpr", "self._bloom_length", "self._hash_func", "self._els_added",
                   "self._number_hashes", "self._num_bits", "self._bloom"],
         ensures=_CLOADED)
contract("CountingBloomFilter.frombytes", kind="classmethod", contexts=_CB, properties=["C05", "C06", "C08"],
         params={"b": "bytes", "hash_function": "opt[hashfunc]"}, returns="obj:CountingBloomFilter",
         requires=[r if not isinstance(r, tuple) else (r[0], r[1].replace("file", "b")) for r in _CLOAD_REQ[:3]],
         modifies=[],
         ensures=[(n, t.replace("self.", "result.").replace("file", "b").replace("geo_bloom(self)", "geo_bloom(result)")
                   .replace("inv_cbloom(self)", "inv_cbloom(result)")) for n, t in _CLOADED])


# ---- the PATH channel of export: open(path, "wb") + the same body on the file object; the file at the resolved path then
#      holds exactly the documented image (keys end in "@path": a second contract for the same body with a path argument;
#      they are never used at call sites) -----------------------------------------------------------------------------------
_FB = "file_bytes(resolve(file))"
_PATH_REQ = [("a_path_is_given", "isinstance(file, str) and file != ''")]
contract("BloomFilter.export@path", contexts=["BloomFilter"], properties=["C05", "C06", "C01"],
         params={"file": "key"}, requires=_EXP_REQ + _PATH_REQ, modifies=["fs"],
         ensures=[("file_holds_exactly_the_documented_export",
                   f"file_exists(resolve(file)) and len({_FB}) == len(self._bloom) + 20 and bloom_image(self, {_FB}, 0)")])
contract("BloomFilter.export@pathC", contexts=["CountingBloomFilter"], properties=["C05", "C06", "C08"],
         params={"file": "key"}, requires=_CEXP + _PATH_REQ, modifies=["fs"],
         ensures=[("file_holds_exactly_the_documented_export",
                   f"file_exists(resolve(file)) and len({_FB}) == 4 * len(self._bloom) + 20 and cbloom_image(self, {_FB}, 0)")])
contract("CountMinSketch.export@path", contexts=_CMS_ALL, properties=["C05", "C06"],
         params={"file": "key"}, requires=_CEXP_REQ + _PATH_REQ, modifies=["fs"],
         ensures=[("file_holds_exactly_the_documented_export",
                   f"file_exists(resolve(file)) and len({_FB}) == 4 * cw(self) * cd(self) + 16 and cms_image(self, {_FB}, 0)")])


# ---- the PATH channel of the loaders: MMap(path) + the same body on the mapped bytes ------------------------------------------
import re as _re  # noqa: E402


def _onpath(clauses, skip=()):
    out = []
    for c in clauses:
        if isinstance(c, tuple):
            if c[0] in skip:
                continue
            out.append((c[0], _re.sub(r"\bfile\b", _FB, c[1])))
        else:
            out.append(_re.sub(r"\bfile\b", _FB, c))
    return out


_PEXISTS = [("path_is_text", "isinstance(file, str)"), ("file_is_there", "file_exists(resolve(file))")]
_BMODS = ["self._est_elements", "self._fpr", "self._bloom_length", "self._hash_func", "self._els_added",
          "self._number_hashes", "self._num_bits", "self._bloom"]
contract("BloomFilter._load@path", contexts=["BloomFilter"], properties=["C05", "C06", "C01"],
         params={"file": "key", "hash_function": "opt[hashfunc]"},
         requires=_PEXISTS + _onpath(_LOAD_REQ), modifies=_BMODS, ensures=_onpath(_LOADED))
contract("BloomFilter._load@pathC", contexts=["CountingBloomFilter"], properties=["C05", "C06", "C08"],
         params={"file": "key", "hash_function": "opt[hashfunc]"},
         requires=_PEXISTS + _onpath(_CLOAD_REQ), modifies=_BMODS, ensures=_onpath(_CLOADED))

from pyvc.api import CONTRACTS as _C  # noqa: E402
_pb = _C["CountMinSketch._parse_bytes"]
contract("CountMinSketch.__load@path", contexts=_CMS_ALL, properties=["C05", "C06"],
         params={"file": "key"},
         requires=_PEXISTS + _onpath(list(_pb.requires)), modifies=list(_pb.modifies), ensures=_onpath(list(_pb.ensures)))
contract("CountMinSketch.__load", contexts=_CMS_ALL, properties=["C05", "C06"],
         params={"file": "mmap"}, requires=list(_pb.requires), modifies=list(_pb.modifies), ensures=list(_pb.ensures))

# constructors with filepath= (the Bloom family): _load_init takes the path branch when the file exists
_LI_PARAMS = {"filepath": "key", "hash_function": "opt[hashfunc]", "hex_string": "none", "est_elements": "opt[int]",
              "false_positive_rate": "opt[float]"}


def _onfp(clauses):
    return [(n, _re.sub(r"\bfile\b", "filepath", t)) for n, t in clauses]


contract("BloomFilter._load_init@path", contexts=["BloomFilter"], properties=["C05", "C01"],
         params=_LI_PARAMS, requires=_onfp(_PEXISTS + _onpath(_LOAD_REQ)) + [("exists_as_given", "file_exists(filepath)")],
         modifies=_BMODS, ensures=_onfp(_onpath(_LOADED)))
contract("CountingBloomFilter._load_init@path", contexts=["CountingBloomFilter"], properties=["C05", "C08"],
         params=_LI_PARAMS, requires=_onfp(_PEXISTS + _onpath(_CLOAD_REQ[:3])) + [("exists_as_given", "file_exists(filepath)")],
         modifies=_BMODS + ["self._bits_per_elm", "self._type", "self._typecode", "self._filepath"],
         ensures=_onfp(_onpath(_CLOADED)) + [("counting", "self._typecode == 'I' and self._bits_per_elm == 1.0")])
contract("BloomFilter.__init__@pathC", contexts=["CountingBloomFilter"], properties=["C05", "C08"],
         params={"est_elements": "opt[int]", "false_positive_rate": "opt[float]", "filepath": "key", "hex_string": "none",
                 "hash_function": "opt[hashfunc]"},
         requires=_onfp(_PEXISTS + _onpath(_CLOAD_REQ[:3])) + [("exists_as_given", "file_exists(filepath)")],
         modifies=["self"], ensures=_onfp(_onpath(_CLOADED)) + [("counting", "self._typecode == 'I' and self._on_disk == False")])

_INITP = {"est_elements": "opt[int]", "false_positive_rate": "opt[float]", "filepath": "key", "hex_string": "none",
          "hash_function": "opt[hashfunc]"}
contract("BloomFilter.__init__@path", contexts=["BloomFilter"], properties=["C05", "C01"],
         params=_INITP, requires=_onfp(_PEXISTS + _onpath(_LOAD_REQ[:3])) + [("exists_as_given", "file_exists(filepath)")],
         modifies=["self"], ensures=_onfp(_onpath(_LOADED)) + [("in_memory", "self._on_disk == False and self._typecode == 'B'")])
contract("CountingBloomFilter.__init__@path", contexts=["CountingBloomFilter"], properties=["C05", "C08"],
         params=_INITP, requires=_onfp(_PEXISTS + _onpath(_CLOAD_REQ[:3])) + [("exists_as_given", "file_exists(filepath)")],
         modifies=["self"], ensures=_onfp(_onpath(_CLOADED)) + [("counting", "self._typecode == 'I' and self._on_disk == False")])

_CMSP = {"width": "opt[int]", "depth": "opt[int]", "confidence": "opt[float]", "error_rate": "opt[float]", "filepath": "key",
         "hash_function": "opt[hashfunc]"}
contract("CountMinSketch.__init__@path", contexts=["CountMinSketch"], properties=["C05", "C06"],
         params=_CMSP,
         requires=_onfp(_PEXISTS + _onpath([r for r in _pb.requires if r[0] != "query_mode"])) + [("exists_as_given", "file_exists(filepath)")],
         modifies=["self"],
         ensures=_onfp(_onpath(list(_pb.ensures))) + [("min_mode", "is_min_mode(self)"),
                  ("hash_function_kept_or_default", "self._hash_function == (hash_function if hash_function is not None else default_fnv_1a)")])


# ---- the HEX channel (C05, C06): a hex text is modelled as the sequence of its digit values -------------------------------------
def _hex_image(cells, width):
    foot = f"{width} * self._bloom_length"
    return [("length", f"len(result) == 2 * ({foot} + 20)"),
            ("cells", "all(" + cells + " for c in range(0, self._bloom_length))"),
            ("footer_big_endian",
             f"be_bytes(unhex(result), {foot}, 8) == self._est_elements and be_bytes(unhex(result), {foot} + 8, 8) == self._els_added "
             f"and f32_at_be(unhex(result), {foot} + 16) == f32(self._fpr)")]


contract("BloomFilter.export_hex", contexts=["BloomFilter"], properties=["C05", "C06", "C19"],
         returns="hex", requires=_EXP_REQ, modifies=[],
         ensures=_hex_image("hex_byte(result, c) == self._bloom[c]", "1"))

contract("BloomFilter.export_hex@CountingBloomFilter", contexts=_CB, properties=["C05", "C06", "C08", "C19"],
         returns="hex", requires=_CEXP, modifies=[],
         ensures=_hex_image("le_bytes(unhex(result), 4 * c, 4) == self._bloom[c]", "4"))

_H = "unhex(hex_string)"
_HEX_REQ = [("even_number_of_digits", "len(hex_string) % 2 == 0"), ("has_footer", f"len({_H}) >= 20"),
            ("stored_geometry_usable",
             f"0 < f32_at_be({_H}, len({_H}) - 4) < 1 and be_bytes({_H}, len({_H}) - 20, 8) >= 1 and "
             f"bloom_k(be_bytes({_H}, len({_H}) - 20, 8), bloom_m(be_bytes({_H}, len({_H}) - 20, 8), f32_at_be({_H}, len({_H}) - 4))) >= 1 and "
             f"bloom_m(be_bytes({_H}, len({_H}) - 20, 8), f32_at_be({_H}, len({_H}) - 4)) < 2**53")]
_HEX_LOADED = [("estimated_elements", f"self._est_elements == be_bytes({_H}, len({_H}) - 20, 8)"),
               ("elements_added", f"self._els_added == be_bytes({_H}, len({_H}) - 12, 8)"),
               ("rate", f"self._fpr == f32_at_be({_H}, len({_H}) - 4)"), ("geometry", "geo_bloom(self)"),
               ("hash_function_kept_or_default",
                "self._hash_func == (hash_function if hash_function is not None else default_fnv_1a)")]
contract("BloomFilter._load_hex", contexts=["BloomFilter"], properties=["C05", "C06", "C01"],
         params={"hex_string": "hex", "hash_function": "opt[hashfunc]"},
         requires=_HEX_REQ + [("in_memory_byte_cells", "self._typecode == 'B' and self._bits_per_elm == 8.0")],
         modifies=_BMODS,
         ensures=_HEX_LOADED + [("array_length_field", "self._bloom_length == cdiv(self._num_bits, 8)"),
                                ("cells_are_all_the_leading_bytes", f"len(self._bloom) == len({_H}) - 20 and "
                                 f"all(self._bloom[c] == hex_byte(hex_string, c) for c in range(0, len(self._bloom)))")])
contract("BloomFilter._load_hex@CountingBloomFilter", contexts=_CB, properties=["C05", "C06", "C08"],
         params={"hex_string": "hex", "hash_function": "opt[hashfunc]"},
         requires=_HEX_REQ + [("whole_cells", f"(len({_H}) - 20) % 4 == 0"), ("uint32_cells", "self._typecode == 'I' and self._bits_per_elm == 1.0")],
         modifies=_BMODS,
         ensures=_HEX_LOADED + [("array_length_field", "self._bloom_length == self._num_bits"),
                                ("cells_are_all_the_leading_uint32s", f"4 * len(self._bloom) == len({_H}) - 20 and "
                                 f"all(self._bloom[c] == le_bytes({_H}, 4 * c, 4) for c in range(0, len(self._bloom)))")])

_GEOM_OK_BE = ("0 < f32_at_be(d, 16) < 1 and be_bytes(d, 0, 8) >= 1 and "
               "bloom_k(be_bytes(d, 0, 8), bloom_m(be_bytes(d, 0, 8), f32_at_be(d, 16))) >= 1")
contract("BloomFilter._parse_footer@be", kind="classmethod", contexts=["BloomFilter", "CountingBloomFilter"],
         properties=["C05", "C06", "C01", "C07"],
         params={"stct": "struct:>QQf", "d": "bytes"}, returns="tuple[int,int,float,int,int]",
         requires=[("twenty_bytes", "len(d) >= 20"), ("stored_geometry_usable", _GEOM_OK_BE)],
         modifies=[],
         ensures=[("estimated_elements_field", "result[0] == be_bytes(d, 0, 8)"),
                  ("elements_added_field", "result[1] == be_bytes(d, 8, 8)"),
                  ("rate_field", "result[2] == f32_at_be(d, 16)"),
                  ("geometry_rederived_as_the_constructor_does",
                   "result[4] == bloom_m(result[0], result[2]) and result[3] == bloom_k(result[0], result[4])"),
                  ("usable", "result[3] >= 1 and result[4] >= 1")])

_LIH = {"filepath": "none", "hash_function": "opt[hashfunc]", "hex_string": "hex", "est_elements": "opt[int]",
        "false_positive_rate": "opt[float]"}
_INITH = {"est_elements": "opt[int]", "false_positive_rate": "opt[float]", "filepath": "none", "hex_string": "hex",
          "hash_function": "opt[hashfunc]"}
_HB = _C["BloomFilter._load_hex"]
_HC = _C["BloomFilter._load_hex@CountingBloomFilter"]
contract("BloomFilter._load_init@hex", contexts=["BloomFilter"], properties=["C05", "C01"],
         params=_LIH, requires=list(_HB.requires), modifies=_BMODS, ensures=list(_HB.ensures))
contract("BloomFilter.__init__@hex", contexts=["BloomFilter"], properties=["C05", "C01"],
         params=_INITH, requires=list(_HB.requires)[:3], modifies=["self"],
         ensures=list(_HB.ensures) + [("in_memory", "self._on_disk == False and self._typecode == 'B'")])
contract("CountingBloomFilter._load_init@hex", contexts=_CB, properties=["C05", "C08"],
         params=_LIH, requires=list(_HC.requires)[:4],
         modifies=_BMODS + ["self._bits_per_elm", "self._type", "self._typecode"],
         ensures=list(_HC.ensures) + [("counting", "self._typecode == 'I' and self._bits_per_elm == 1.0")])
contract("BloomFilter.__init__@hexC", contexts=_CB, properties=["C05", "C08"],
         params=_INITH, requires=list(_HC.requires)[:4], modifies=["self"],
         ensures=list(_HC.ensures) + [("counting", "self._typecode == 'I' and self._on_disk == False")])
contract("CountingBloomFilter.__init__@hex", contexts=_CB, properties=["C05", "C08"],
         params=_INITH, requires=list(_HC.requires)[:4], modifies=["self"],
         ensures=list(_HC.ensures) + [("counting", "self._typecode == 'I' and self._on_disk == False")])
