"""CuckooFilter (C03, C14, C15)"""
from pyvc.api import classinfo, contract

CK_FIELDS = {"_bucket_size": "int", "_cuckoo_capacity": "int", "_CuckooFilter__max_cuckoo_swaps": "int",
             "_CuckooFilter__expansion_rate": "int", "_CuckooFilter__auto_expand": "bool", "_fingerprint_size": "int",
             "_CuckooFilter__hash_func": "intfunc", "_inserted_elements": "int", "_buckets": "list[list[int]]",
             "_error_rate": "float"}
classinfo("CuckooFilter", "probables.cuckoo.cuckoo", CK_FIELDS, inv="inv_cuckoo(self)")

CAP = "self._cuckoo_capacity"
BK = "self._buckets"
_OTHER_BUCKETS = f"all(b == idx or same({BK}[b], old({BK}[b])) for b in range(0, {CAP}))"

contract("CuckooFilter.__insert_element", contexts=["CuckooFilter"], properties=["C03", "C15", "C14"],
         params={"fingerprint": "int", "idx": "int"}, returns="bool",
         requires=[("table_shape", f"len({BK}) == {CAP} and {CAP} >= 1 and 0 <= idx < {CAP} and "
                                   f"all(len({BK}[b]) >= 0 for b in range(0, {CAP}))")],
         modifies=[BK],
         ensures=[("inserted_iff_room", f"result == (old(len({BK}[idx])) < self._bucket_size)"),
                  ("appended_at_the_end", f"implies(result, len({BK}[idx]) == old(len({BK}[idx])) + 1 and "
                                          f"{BK}[idx][old(len({BK}[idx]))] == fingerprint and "
                                          f"all({BK}[idx][j] == old({BK}[idx][j]) for j in range(0, old(len({BK}[idx])))))"),
                  ("other_buckets_kept", _OTHER_BUCKETS),
                  ("table_length_kept", f"len({BK}) == old(len({BK}))"),
                  ("counts", f"all(tcount({BK}, {CAP}, f) == old(tcount({BK}, {CAP}, f)) + (1 if (result and f == fingerprint) else 0) "
                             "for f in allkeys())"),
                  ("size", f"tsize({BK}, {CAP}) == old(tsize({BK}, {CAP})) + (1 if result else 0)"),
                  ("unchanged_when_full", f"implies(not result, same({BK}, old({BK})))")])

contract("CuckooFilter._indicies_from_fingerprint", contexts=["CuckooFilter"], properties=["C03", "C15"],
         params={"fingerprint": "int"}, returns="tuple[int,int]",
         requires=[("capacity_positive", f"{CAP} >= 1")], modifies=[],
         ensures=[("first_candidate", f"result[0] == fingerprint % {CAP}"),
                  ("second_candidate", "result[1] == ck_alt(self, fingerprint)"),
                  ("in_range", f"0 <= result[0] < {CAP} and 0 <= result[1] < {CAP}")])

contract("CuckooFilter._check_if_present", contexts=["CuckooFilter"], properties=["C03", "C15", "C19"],
         params={"idx_1": "int", "idx_2": "int", "fingerprint": "int"}, returns="opt[int]",
         requires=[("table_shape", f"len({BK}) == {CAP} and 0 <= idx_1 < {CAP} and 0 <= idx_2 < {CAP}")], modifies=[],
         ensures=[("first_bucket_wins", f"implies(lcount({BK}[idx_1], 0, len({BK}[idx_1]), fingerprint) >= 1, result == idx_1)"),
                  ("then_second", f"implies(lcount({BK}[idx_1], 0, len({BK}[idx_1]), fingerprint) < 1 and "
                                  f"lcount({BK}[idx_2], 0, len({BK}[idx_2]), fingerprint) >= 1, result == idx_2)"),
                  ("else_none", f"implies(lcount({BK}[idx_1], 0, len({BK}[idx_1]), fingerprint) < 1 and "
                                f"lcount({BK}[idx_2], 0, len({BK}[idx_2]), fingerprint) < 1, result is None)")])

_TC = f"tcount({BK}, {CAP}, f)"
_INS_REQ = [("inv", "inv_cuckoo(self)"), ("not_stored_yet", f"tcount({BK}, {CAP}, fingerprint) == 0"),
            ("first_candidate", f"idx_1 == fingerprint % {CAP}"), ("second_candidate", "idx_2 == ck_alt(self, fingerprint)"),
            ("swaps_positive", "self._CuckooFilter__max_cuckoo_swaps >= 1")]

contract("CuckooFilter._insert_fingerprint", contexts=["CuckooFilter"], properties=["C03", "C15", "C14"],
         params={"fingerprint": "int", "idx_1": "int", "idx_2": "int"}, returns="opt[int]",
         let=[("fp0", "fingerprint")], locals={"undo": "list[tuple[int,int]]"},
         requires=_INS_REQ,
         modifies=[BK, "self._inserted_elements"],
         ensures=[("inv_shape", "ck_shape(self)"), ("inv_placed", "ck_placed(self)"), ("inv_nodup", f"nodup({BK}, {CAP})"),
                  ("inv_counter", f"self._inserted_elements == tsize({BK}, {CAP})"),
                  ("stored", f"implies(result is None, all({_TC} == old({_TC}) + (1 if f == fp0 else 0) for f in allkeys()))"),
                  ("failed_insert_hands_back_the_new_fingerprint", "implies(result is not None, result == fp0)"),
                  ("failed_insert_leaves_the_table_as_it_was",
                   f"implies(result is not None, same({BK}, old({BK})) and self._inserted_elements == old(self._inserted_elements))"),
                  ("capacity_kept", f"{CAP} == old({CAP})")],
         loops={0: {"invariant": [
             ("shape", "ck_shape(self)"), ("placed", "ck_placed(self)"), ("nodup", f"nodup({BK}, {CAP})"),
             ("conservation", f"all({_TC} + (1 if f == fingerprint else 0) == old({_TC}) + (1 if f == fp0 else 0) for f in allkeys())"),
             ("in_hand_not_stored", f"tcount({BK}, {CAP}, fingerprint) == 0"),
             ("current_bucket_is_a_candidate", f"0 <= idx < {CAP} and (idx == fingerprint % {CAP} or idx == ck_alt(self, fingerprint))"),
             ("current_bucket_full", f"len({BK}[idx]) == self._bucket_size"),
             ("counter", f"self._inserted_elements == tsize({BK}, {CAP}) and self._inserted_elements == old(self._inserted_elements)"),
             ("undoing_the_recorded_swaps_restores_the_table",
              f"same(undone_table({BK}, fingerprint, undo, len(undo)), old({BK})) and "
              f"undone_hand({BK}, fingerprint, undo, len(undo)) == fp0"),
             ("recorded_swaps_are_slots", f"all(0 <= undo[q][0] < {CAP} and 0 <= undo[q][1] < self._bucket_size "
                                          f"and undo[q][1] < old(len({BK}[undo[q][0]])) for q in range(0, len(undo)))"),
             ("lengths_kept", f"all(len({BK}[b]) == old(len({BK}[b])) for b in range(0, {CAP}))")]},
                1: {"invariant": [
             ("rest_of_the_undo_restores_the_table",
              f"same(undone_table({BK}, fingerprint, undo, len(undo) - _i), old({BK})) and "
              f"undone_hand({BK}, fingerprint, undo, len(undo) - _i) == fp0"),
             ("table_length_kept", f"len({BK}) == {CAP}"),
             ("lengths_kept", f"all(len({BK}[b]) == old(len({BK}[b])) for b in range(0, {CAP}))"),
             ("counter_kept", "self._inserted_elements == old(self._inserted_elements)")]}})

contract("probables.utilities.get_x_bits", kind="function", properties=["C03", "C15"],
         params={"num": "int", "max_bits": "int", "num_bits": "int", "right_bits": "bool"}, returns="int",
         requires=[("bit_counts", "0 <= num_bits <= max_bits")], modifies=[],
         ensures=[("low_bits", "implies(right_bits, result == num % 2 ** num_bits)"),
                  ("in_range", "implies(right_bits, 0 <= result < 2 ** num_bits)")])

contract("CuckooFilter._generate_fingerprint_info", contexts=["CuckooFilter"], properties=["C03", "C15"],
         params={"key": "key"}, returns="tuple[int,int,int]",
         requires=[("capacity_positive", f"{CAP} >= 1"), ("fingerprint_bits", "0 <= self._fingerprint_size <= 64")],
         modifies=[],
         ensures=[("fingerprint", "result[2] == ck_fp(self, key)"),
                  ("first_candidate", f"result[0] == result[2] % {CAP}"),
                  ("second_candidate", "result[1] == ck_alt(self, result[2])"),
                  ("in_range", f"0 <= result[0] < {CAP} and 0 <= result[1] < {CAP} and result[2] >= 0")])

_TCN = f"tcount({BK}, {CAP}, f)"
_KEYREQ = [("inv", "inv_cuckoo(self)"), ("fingerprint_bits", "0 <= self._fingerprint_size <= 64"),
           ("swaps_positive", "self._CuckooFilter__max_cuckoo_swaps >= 1"),
           ("expansion_rate", "self._CuckooFilter__expansion_rate >= 1")]

contract("CuckooFilter.check", contexts=["CuckooFilter"], properties=["C03", "C19"],
         params={"key": "key"}, returns="bool", requires=_KEYREQ, modifies=[],
         ensures=[("present_iff_fingerprint_stored", f"result == (tcount({BK}, {CAP}, ck_fp(self, key)) >= 1)")])

contract("CuckooFilter.remove", contexts=["CuckooFilter"], properties=["C03", "C14", "C15"],
         params={"key": "key"}, returns="bool", requires=_KEYREQ,
         modifies=[BK, "self._inserted_elements"],
         ensures=[("reports_whether_it_was_stored", f"result == (old(tcount({BK}, {CAP}, ck_fp(self, key))) >= 1)"),
                  ("only_that_fingerprint_leaves",
                   f"all({_TCN} == (0 if f == ck_fp(self, key) else old({_TCN})) for f in allkeys())"),
                  ("inv_shape", "ck_shape(self)"), ("inv_placed", "ck_placed(self)"), ("inv_nodup", f"nodup({BK}, {CAP})"),
                  ("inv_counter", f"self._inserted_elements == tsize({BK}, {CAP})"),
                  ("capacity_kept", f"{CAP} == old({CAP})")])

_RATE = "self._CuckooFilter__expansion_rate"
_EXTRA = "(1 if (extra_fingerprint is not None and f == extra_fingerprint) else 0)"

contract("CuckooFilter._setup_expand", contexts=["CuckooFilter"], properties=["C03", "C15", "C14"],
         params={"extra_fingerprint": "opt[int]"}, returns="list[int]", locals={"fingerprints": "list[int]"},
         requires=[("shape", "ck_shape(self)"), ("expansion_rate", f"{_RATE} >= 1")],
         modifies=[BK, CAP, "self._inserted_elements"], rebinds=[BK],
         ensures=[("every_stored_fingerprint_and_the_extra_one_is_listed",
                   f"all(lcount(result, 0, len(result), f) == old({_TCN}) + {_EXTRA} for f in allkeys())"),
                  ("capacity_multiplied", f"{CAP} == old({CAP}) * {_RATE}"),
                  ("fresh_empty_table", f"len({BK}) == {CAP} and all(len({BK}[b]) == 0 for b in range(0, {CAP})) and "
                                        f"all({_TCN} == 0 for f in allkeys()) and tsize({BK}, {CAP}) == 0 and "
                                        "self._inserted_elements == 0")],
         loops={0: {"invariant": [("collected", f"all(lcount(fingerprints, 0, len(fingerprints), f) == tcount({BK}, _i, f) + {_EXTRA} "
                                                "for f in allkeys())")]},
                1: {"invariant": [("empty_prefix", f"len({BK}) == _i and all(len({BK}[b]) == 0 for b in range(0, _i)) and "
                                                   f"all(tcount({BK}, _i, f) == 0 for f in allkeys()) and tsize({BK}, _i) == 0")]}})

_NOT_LOST = f"all({_TCN} >= old({_TCN}) for f in allkeys())"
_FULL_ERR = {"CuckooFilterFullError": {"when": "True", "must": False, "state": "unchanged",
                                       "ensures": [("every_fingerprint_present_before_is_still_present", _NOT_LOST)]}}

contract("CuckooFilter._expand_logic", contexts=["CuckooFilter"], properties=["C03", "C15", "C14"],
         params={"extra_fingerprint": "opt[int]"},
         requires=[("inv", "inv_cuckoo(self)"), ("expansion_rate", f"{_RATE} >= 1"),
                   ("swaps_positive", "self._CuckooFilter__max_cuckoo_swaps >= 1"),
                   ("extra_not_stored", f"extra_fingerprint is None or tcount({BK}, {CAP}, extra_fingerprint) == 0")],
         raises=_FULL_ERR,
         modifies=[BK, CAP, "self._inserted_elements"],
         ensures=[("same_fingerprints_plus_the_extra_one", f"all({_TCN} == old({_TCN}) + {_EXTRA} for f in allkeys())"),
                  ("capacity_multiplied", f"{CAP} == old({CAP}) * {_RATE}"),
                  ("inv_shape", "ck_shape(self)"), ("inv_placed", "ck_placed(self)"), ("inv_nodup", f"nodup({BK}, {CAP})"),
                  ("inv_counter", f"self._inserted_elements == tsize({BK}, {CAP})")],
         loops={0: {"invariant": [
             ("shape", "ck_shape(self)"), ("placed", "ck_placed(self)"), ("nodup", f"nodup({BK}, {CAP})"),
             ("counter", f"self._inserted_elements == tsize({BK}, {CAP})"),
             ("capacity", f"{CAP} == old({CAP}) * {_RATE}"),
             ("conservation", f"all({_TCN} + lcount(fingerprints, _i, len(fingerprints), f) == old({_TCN}) + {_EXTRA} "
                              "for f in allkeys())")]}})

contract("CuckooFilter.expand", contexts=["CuckooFilter"], properties=["C03", "C15", "C14"],
         requires=[("inv", "inv_cuckoo(self)"), ("expansion_rate", f"{_RATE} >= 1"),
                   ("swaps_positive", "self._CuckooFilter__max_cuckoo_swaps >= 1")],
         raises=_FULL_ERR, modifies=[BK, CAP, "self._inserted_elements"],
         ensures=[("same_fingerprints", f"all({_TCN} == old({_TCN}) for f in allkeys())"),
                  ("capacity_multiplied", f"{CAP} == old({CAP}) * {_RATE}"),
                  ("inv_shape", "ck_shape(self)"), ("inv_placed", "ck_placed(self)"), ("inv_nodup", f"nodup({BK}, {CAP})"),
                  ("inv_counter", f"self._inserted_elements == tsize({BK}, {CAP})")])

_FULL_ERR_DEAL = {"CuckooFilterFullError": dict(_FULL_ERR["CuckooFilterFullError"], when="finger is not None")}

contract("CuckooFilter._deal_with_insertion", contexts=["CuckooFilter"], properties=["C03", "C15", "C14"],
         params={"finger": "opt[int]"},
         requires=[("inv", "inv_cuckoo(self)"), ("expansion_rate", f"{_RATE} >= 1"),
                   ("swaps_positive", "self._CuckooFilter__max_cuckoo_swaps >= 1"),
                   ("left_over_not_stored", f"finger is None or tcount({BK}, {CAP}, finger) == 0")],
         raises=_FULL_ERR_DEAL, modifies=[BK, CAP, "self._inserted_elements"],
         ensures=[("left_over_is_stored_again",
                   f"all({_TCN} == old({_TCN}) + (1 if (finger is not None and f == finger) else 0) for f in allkeys())"),
                  ("inv_shape", "ck_shape(self)"), ("inv_placed", "ck_placed(self)"), ("inv_nodup", f"nodup({BK}, {CAP})"),
                  ("inv_counter", f"self._inserted_elements == tsize({BK}, {CAP})")])

contract("CuckooFilter.add", contexts=["CuckooFilter"], properties=["C03", "C15", "C14"],
         params={"key": "key"}, requires=_KEYREQ, raises=_FULL_ERR,
         modifies=[BK, CAP, "self._inserted_elements"],
         ensures=[("key_present_nothing_else_changes",
                   f"all({_TCN} == (1 if f == ck_fp(self, key) else old({_TCN})) for f in allkeys())"),
                  ("inv_shape", "ck_shape(self)"), ("inv_placed", "ck_placed(self)"), ("inv_nodup", f"nodup({BK}, {CAP})"),
                  ("inv_counter", f"self._inserted_elements == tsize({BK}, {CAP})")])


# ---- export of the cuckoo format (C05, C15, C19) ------------------------------------------------------------------------------
_CKX = [("shape", "ck_shape(self)"),
        ("fingerprints_are_uint32", "all(all(0 <= self._buckets[b][j] < 2**32 for j in range(0, len(self._buckets[b]))) "
                                    "for b in range(0, self._cuckoo_capacity))"),
        ("settings_fit_uint32", "self._bucket_size < 2**32 and 0 <= self._CuckooFilter__max_cuckoo_swaps < 2**32")]
_CKB = "old(len(written(file)))"
_CKSLOT = ("all(le_bytes(written(file), {base} + 4 * (smul(q, self._bucket_size) + j), 4) == "
           "(self._buckets[q][j] if j < len(self._buckets[q]) else 0) for j in range(0, self._bucket_size))")
contract("CuckooFilter.export", contexts=["CuckooFilter"], properties=["C05", "C15", "C19", "C06"],
         params={"file": "stream"}, requires=_CKX, modifies=["file"],
         ensures=[("appends_every_bucket_and_the_footer",
                   f"len(written(file)) == {_CKB} + 4 * smul(self._cuckoo_capacity, self._bucket_size) + 8"),
                  ("earlier_bytes_kept", f"all(written(file)[i] == old(written(file))[i] for i in range(0, {_CKB}))"),
                  ("documented_layout_buckets", f"ck_cells(self, written(file), {_CKB})"),
                  ("documented_layout_footer", f"ck_foot(self, written(file), {_CKB})")],
         loops={0: {"invariant": [
             ("length", f"len(written(file)) == {_CKB} + 4 * smul(_i, self._bucket_size)"),
             ("earlier_bytes_kept", f"all(written(file)[i] == old(written(file))[i] for i in range(0, {_CKB}))"),
             ("buckets_so_far", "all(" + _CKSLOT.format(base=_CKB) + " for q in range(0, _i))")]}})

contract("CuckooFilter.__bytes__", contexts=["CuckooFilter"], properties=["C05", "C15", "C19", "C06"],
         returns="bytes", requires=_CKX, modifies=[],
         ensures=[("size", "len(result) == 4 * smul(self._cuckoo_capacity, self._bucket_size) + 8"),
                  ("documented_layout", "ck_image(self, result, 0)")])

_PAD = "all(cells32(d)[i] == 0 for i in range(nzlead(cells32(d), len(cells32(d))), len(cells32(d))))"
contract("CuckooFilter._parse_bucket", contexts=["CuckooFilter"], properties=["C05", "C15"],
         params={"d": "bytes"}, variants=[{"d": "mmap"}], returns="array:I",
         requires=[("whole_slots", "len(d) % 4 == 0")], modifies=["self._inserted_elements"],
         ensures=[("no_more_than_the_slots", "0 <= len(result) <= len(cells32(d))"),
                  ("zeros_dropped", "all(result[i] != 0 for i in range(0, len(result)))"),
                  ("counts_of_stored_fingerprints_kept",
                   "all(implies(f != 0, lcount(result, 0, len(result), f) == lcount(cells32(d), 0, len(cells32(d)), f)) for f in allkeys())"),
                  ("zero_padded_bucket_is_read_back_exactly",
                   "implies(" + _PAD + ", len(result) == nzlead(cells32(d), len(cells32(d))) and "
                   "all(result[i] == cells32(d)[i] for i in range(0, len(result))))"),
                  ("counted", "self._inserted_elements == old(self._inserted_elements) + len(result)")])

_CKF = ("le_bytes(d, len(d) - 8, 4)", "le_bytes(d, len(d) - 4, 4)")
contract("CuckooFilter._parse_footer", contexts=["CuckooFilter"], properties=["C05", "C15"],
         params={"d": "bytes", "stct": "struct:II"}, variants=[{"d": "mmap"}],
         requires=[("has_footer", "len(d) >= 8"), ("stored_bucket_size_usable", f"{_CKF[0]} >= 1")],
         modifies=["self._bucket_size", "self._CuckooFilter__max_cuckoo_swaps", "self._cuckoo_capacity"],
         ensures=[("bucket_size_field", f"self._bucket_size == {_CKF[0]}"),
                  ("max_swaps_field", f"self._CuckooFilter__max_cuckoo_swaps == {_CKF[1]}"),
                  ("capacity_is_the_number_of_whole_buckets", "self._cuckoo_capacity == (len(d) - 8) // 4 // self._bucket_size")])

contract("CuckooFilter.export@path", contexts=["CuckooFilter"], properties=["C05", "C15", "C06"],
         params={"file": "key"}, loops={0: {"unreached": True}}, requires=_CKX + [("a_path_is_given", "isinstance(file, str) and file != ''")], modifies=["fs"],
         ensures=[("file_holds_exactly_the_documented_export",
                   "file_exists(resolve(file)) and len(file_bytes(resolve(file))) == 4 * smul(self._cuckoo_capacity, self._bucket_size) + 8 "
                   "and ck_image(self, file_bytes(resolve(file)), 0)")])
