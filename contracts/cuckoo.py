"""CuckooFilter (C03, C14, C15)"""
from pyvc.api import classinfo, contract

CK_FIELDS = {"_bucket_size": "int", "_cuckoo_capacity": "int", "_CuckooFilter__max_cuckoo_swaps": "int",
             "_CuckooFilter__expansion_rate": "int", "_CuckooFilter__auto_expand": "bool", "_fingerprint_size": "int",
             "_CuckooFilter__hash_func": "intfunc", "_inserted_elements": "int", "_buckets": "list[list[int]]",
             "_error_rate": "float"}
classinfo("CuckooFilter", "probables.cuckoo.cuckoo", CK_FIELDS, inv="inv_cuckoo(self)")

CAP = "self._cuckoo_capacity"
BK = "self._buckets"
_OTHER_BUCKETS = f"all(b == idx or same({BK}[b], old({BK}[b])) for b in range(0, {CAP}))"

contract("CuckooFilter.__insert_element", contexts=["CuckooFilter"], properties=["C03", "C15", "C14"],
         params={"fingerprint": "int", "idx": "int"}, returns="bool",
         requires=[("table_shape", f"len({BK}) == {CAP} and {CAP} >= 1 and 0 <= idx < {CAP} and "
                                   f"all(len({BK}[b]) >= 0 for b in range(0, {CAP}))")],
         modifies=[BK],
         ensures=[("inserted_iff_room", f"result == (old(len({BK}[idx])) < self._bucket_size)"),
                  ("appended_at_the_end", f"implies(result, len({BK}[idx]) == old(len({BK}[idx])) + 1 and "
                                          f"{BK}[idx][old(len({BK}[idx]))] == fingerprint and "
                                          f"all({BK}[idx][j] == old({BK}[idx][j]) for j in range(0, old(len({BK}[idx])))))"),
                  ("other_buckets_kept", _OTHER_BUCKETS),
                  ("table_length_kept", f"len({BK}) == old(len({BK}))"),
                  ("counts", f"all(tcount({BK}, {CAP}, f) == old(tcount({BK}, {CAP}, f)) + (1 if (result and f == fingerprint) else 0) "
                             "for f in allkeys())"),
                  ("size", f"tsize({BK}, {CAP}) == old(tsize({BK}, {CAP})) + (1 if result else 0)"),
                  ("unchanged_when_full", f"implies(not result, same({BK}, old({BK})))")])

contract("CuckooFilter._indicies_from_fingerprint", contexts=["CuckooFilter"], properties=["C03", "C15"],
         params={"fingerprint": "int"}, returns="tuple[int,int]",
         requires=[("capacity_positive", f"{CAP} >= 1")], modifies=[],
         ensures=[("first_candidate", f"result[0] == fingerprint % {CAP}"),
                  ("second_candidate", "result[1] == ck_alt(self, fingerprint)"),
                  ("in_range", f"0 <= result[0] < {CAP} and 0 <= result[1] < {CAP}")])

contract("CuckooFilter._check_if_present", contexts=["CuckooFilter"], properties=["C03", "C15", "C19"],
         params={"idx_1": "int", "idx_2": "int", "fingerprint": "int"}, returns="opt[int]",
         requires=[("table_shape", f"len({BK}) == {CAP} and 0 <= idx_1 < {CAP} and 0 <= idx_2 < {CAP}")], modifies=[],
         ensures=[("first_bucket_wins", f"implies(lcount({BK}[idx_1], 0, len({BK}[idx_1]), fingerprint) >= 1, result == idx_1)"),
                  ("then_second", f"implies(lcount({BK}[idx_1], 0, len({BK}[idx_1]), fingerprint) < 1 and "
                                  f"lcount({BK}[idx_2], 0, len({BK}[idx_2]), fingerprint) >= 1, result == idx_2)"),
                  ("else_none", f"implies(lcount({BK}[idx_1], 0, len({BK}[idx_1]), fingerprint) < 1 and "
                                f"lcount({BK}[idx_2], 0, len({BK}[idx_2]), fingerprint) < 1, result is None)")])

_TC = f"tcount({BK}, {CAP}, f)"
_INS_REQ = [("inv", "inv_cuckoo(self)"), ("not_stored_yet", f"tcount({BK}, {CAP}, fingerprint) == 0"),
            ("first_candidate", f"idx_1 == fingerprint % {CAP}"), ("second_candidate", "idx_2 == ck_alt(self, fingerprint)"),
            ("swaps_positive", "self._CuckooFilter__max_cuckoo_swaps >= 1")]

contract("CuckooFilter._insert_fingerprint", contexts=["CuckooFilter"], properties=["C03", "C15", "C14"],
         params={"fingerprint": "int", "idx_1": "int", "idx_2": "int"}, returns="opt[int]",
         let=[("fp0", "fingerprint")],
         requires=_INS_REQ,
         modifies=[BK, "self._inserted_elements"],
         ensures=[("inv_shape", "ck_shape(self)"), ("inv_placed", "ck_placed(self)"), ("inv_nodup", f"nodup({BK}, {CAP})"),
                  ("inv_counter", f"self._inserted_elements == tsize({BK}, {CAP})"),
                  ("stored", f"implies(result is None, all({_TC} == old({_TC}) + (1 if f == fp0 else 0) for f in allkeys()))"),
                  ("nothing_lost_but_the_left_over",
                   f"implies(result is not None, all({_TC} + (1 if f == result else 0) == old({_TC}) + (1 if f == fp0 else 0) "
                   "for f in allkeys()))"),
                  ("left_over_is_not_stored", f"implies(result is not None, tcount({BK}, {CAP}, result) == 0)"),
                  ("capacity_kept", f"{CAP} == old({CAP})")],
         loops={0: {"invariant": [
             ("shape", "ck_shape(self)"), ("placed", "ck_placed(self)"), ("nodup", f"nodup({BK}, {CAP})"),
             ("conservation", f"all({_TC} + (1 if f == fingerprint else 0) == old({_TC}) + (1 if f == fp0 else 0) for f in allkeys())"),
             ("in_hand_not_stored", f"tcount({BK}, {CAP}, fingerprint) == 0"),
             ("current_bucket_is_a_candidate", f"0 <= idx < {CAP} and (idx == fingerprint % {CAP} or idx == ck_alt(self, fingerprint))"),
             ("current_bucket_full", f"len({BK}[idx]) == self._bucket_size"),
             ("counter", f"self._inserted_elements == tsize({BK}, {CAP}) and self._inserted_elements == old(self._inserted_elements)")]}})
