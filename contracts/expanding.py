"""ExpandingBloomFilter / RotatingBloomFilter (C01, C09, C10, C14)"""
from pyvc.api import classinfo, clone_contract, contract

EB_FIELDS = {"_blooms": "list[obj:BloomFilter]", "_ExpandingBloomFilter__fpr": "float",
             "_ExpandingBloomFilter__est_elements": "int", "_ExpandingBloomFilter__hash_func": "hashfunc",
             "_added_elements": "int"}
classinfo("ExpandingBloomFilter", "probables.blooms.expandingbloom", EB_FIELDS, inv="inv_exp(self)")
classinfo("RotatingBloomFilter", "probables.blooms.expandingbloom", dict(EB_FIELDS, _queue_size="int"),
          bases=["ExpandingBloomFilter"], inv="inv_exp(self)")

_NEWEST_FRESH = ("sub_ok(self, self._blooms[len(self._blooms) - 1]) and self._blooms[len(self._blooms) - 1]._els_added == 0 and "
                 "all(self._blooms[len(self._blooms) - 1]._bloom[b] == 0 for b in range(0, self._blooms[len(self._blooms) - 1]._bloom_length))")
_OLDER_KEPT = "all(self._blooms[q] == old(self._blooms[q]) for q in range(0, old(len(self._blooms))))"

contract("ExpandingBloomFilter.__add_bloom_filter", contexts=["ExpandingBloomFilter"], properties=["C09", "C01"],
         requires=[("geometry_usable", "eb_est(self) >= 1 and 0 < f32(eb_fpr(self)) < 1 and "
                                       "bloom_k(eb_est(self), bloom_m(eb_est(self), f32(eb_fpr(self)))) >= 1 and "
                                       "bloom_m(eb_est(self), f32(eb_fpr(self))) < 2**53 and "
                                       "(eb_fpr(self) < 0.0 or f32(eb_fpr(self)) > 0.0) and 0 <= eb_fpr(self) < 1")],
         modifies=["self._blooms"],
         ensures=[("one_more_sub_filter", "len(self._blooms) == old(len(self._blooms)) + 1"),
                  ("older_sub_filters_kept", _OLDER_KEPT),
                  ("newest_is_empty_with_the_filters_geometry", _NEWEST_FRESH)])

_EREQ = [("inv", "inv_exp(self)"), ("rate_accepted", "(eb_fpr(self) < 0.0 or f32(eb_fpr(self)) > 0.0) and 0 <= eb_fpr(self) < 1")]
_HLEN = ("enough_hashes", "len(hashes) >= bloom_k(eb_est(self), bloom_m(eb_est(self), f32(eb_fpr(self))))")

contract("ExpandingBloomFilter.check_alt", contexts=["ExpandingBloomFilter", "RotatingBloomFilter"],
         properties=["C01", "C09", "C10", "C19"],
         params={"hashes": "list[int]"}, returns="bool",
         requires=[("inv", "inv_exp(self)"), _HLEN], modifies=[],
         ensures=[("some_sub_filter_reports_it", "result == exp_reports(self, hashes)")],
         loops={0: {"invariant": [("none_so_far", "all(not sub_reports(self._blooms[q], hashes) for q in range(0, _i))")]}})

contract("ExpandingBloomFilter.__check_for_growth", contexts=["ExpandingBloomFilter"], properties=["C09"],
         requires=_EREQ, modifies=["self._blooms"],
         let=[("full0", "self._blooms[len(self._blooms) - 1]._els_added >= eb_est(self)")],
         ensures=[("grows_exactly_when_newest_is_full", "len(self._blooms) == old(len(self._blooms)) + (1 if full0 else 0)"),
                  ("older_sub_filters_kept", _OLDER_KEPT),
                  ("newest_is_empty_after_growth", "implies(full0, " + _NEWEST_FRESH + ")"),
                  ("newest_has_room", "self._blooms[len(self._blooms) - 1]._els_added < eb_est(self)"),
                  ("inv", "inv_exp(self)")])

contract("ExpandingBloomFilter.push", contexts=["ExpandingBloomFilter"], properties=["C09"],
         requires=_EREQ, modifies=["self._blooms"],
         ensures=[("one_more_sub_filter", "len(self._blooms) == old(len(self._blooms)) + 1"),
                  ("older_sub_filters_kept", _OLDER_KEPT),
                  ("newest_is_empty_with_the_filters_geometry", _NEWEST_FRESH), ("inv", "inv_exp(self)")])

contract("ExpandingBloomFilter.add_alt", contexts=["ExpandingBloomFilter"], properties=["C09", "C01", "C14"],
         params={"hashes": "list[int]", "force": "bool"},
         requires=_EREQ + [_HLEN],
         let=[("present0", "exp_reports(self, hashes)"),
              ("full0", "self._blooms[len(self._blooms) - 1]._els_added >= eb_est(self)"),
              ("n0", "len(self._blooms)")],
         modifies=["self._blooms", "self._added_elements"],
         ensures=[("every_call_is_counted", "self._added_elements == old(self._added_elements) + 1"),
                  ("duplicate_inserts_nothing",
                   "implies(present0 and not force, len(self._blooms) == n0 and "
                   "all(self._blooms[q] == old(self._blooms[q]) for q in range(0, n0)))"),
                  ("grows_exactly_when_newest_is_full",
                   "implies(force or not present0, len(self._blooms) == n0 + (1 if full0 else 0))"),
                  ("older_sub_filters_kept",
                   "implies(force or not present0, all(self._blooms[q] == old(self._blooms[q]) "
                   "for q in range(0, len(self._blooms) - 1)))"),
                  ("inserted_into_the_newest_sub_filter",
                   "implies(force or not present0, implies(not full0, added_to(self._blooms[n0 - 1], old(self._blooms[n0 - 1]), hashes)) and "
                   "implies(full0, self._blooms[n0]._els_added == 1 and sub_reports(self._blooms[n0], hashes)))"),
                  ("reported_afterwards", "exp_reports(self, hashes)"),
                  ("inv", "inv_exp(self)")])
