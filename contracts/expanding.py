"""ExpandingBloomFilter / RotatingBloomFilter (C01, C09, C10, C14)"""
from pyvc.api import classinfo, clone_contract, contract

EB_FIELDS = {"_blooms": "list[obj:BloomFilter]", "_ExpandingBloomFilter__fpr": "float",
             "_ExpandingBloomFilter__est_elements": "int", "_ExpandingBloomFilter__hash_func": "hashfunc",
             "_added_elements": "int"}
classinfo("ExpandingBloomFilter", "probables.blooms.expandingbloom", EB_FIELDS, inv="inv_exp(self)")
classinfo("RotatingBloomFilter", "probables.blooms.expandingbloom", dict(EB_FIELDS, _queue_size="int"),
          bases=["ExpandingBloomFilter"], inv="inv_exp(self)")

_NEWEST_FRESH = ("sub_ok(self, self._blooms[len(self._blooms) - 1]) and self._blooms[len(self._blooms) - 1]._els_added == 0 and "
                 "all(self._blooms[len(self._blooms) - 1]._bloom[b] == 0 for b in range(0, self._blooms[len(self._blooms) - 1]._bloom_length))")
_OLDER_KEPT = "all(self._blooms[q] == old(self._blooms[q]) for q in range(0, old(len(self._blooms))))"

contract("ExpandingBloomFilter.__add_bloom_filter", contexts=["ExpandingBloomFilter"], properties=["C09", "C01"],
         requires=[("geometry_usable", "eb_est(self) >= 1 and 0 < f32(eb_fpr(self)) < 1 and "
                                       "bloom_k(eb_est(self), bloom_m(eb_est(self), f32(eb_fpr(self)))) >= 1 and "
                                       "bloom_m(eb_est(self), f32(eb_fpr(self))) < 2**53 and "
                                       "(eb_fpr(self) < 0.0 or f32(eb_fpr(self)) > 0.0) and 0 <= eb_fpr(self) < 1")],
         modifies=["self._blooms"],
         ensures=[("one_more_sub_filter", "len(self._blooms) == old(len(self._blooms)) + 1"),
                  ("older_sub_filters_kept", _OLDER_KEPT),
                  ("newest_is_empty_with_the_filters_geometry", _NEWEST_FRESH)])

_EREQ = [("inv", "inv_exp(self)"), ("rate_accepted", "(eb_fpr(self) < 0.0 or f32(eb_fpr(self)) > 0.0) and 0 <= eb_fpr(self) < 1")]
_HLEN = ("enough_hashes", "len(hashes) >= bloom_k(eb_est(self), bloom_m(eb_est(self), f32(eb_fpr(self))))")

contract("ExpandingBloomFilter.check_alt", contexts=["ExpandingBloomFilter", "RotatingBloomFilter"],
         properties=["C01", "C09", "C10", "C19"],
         params={"hashes": "list[int]"}, returns="bool",
         requires=[("inv", "inv_exp(self)"), _HLEN], modifies=[],
         ensures=[("some_sub_filter_reports_it", "result == exp_reports(self, hashes)")],
         loops={0: {"invariant": [("none_so_far", "all(not sub_reports(self._blooms[q], hashes) for q in range(0, _i))")]}})

contract("ExpandingBloomFilter.__check_for_growth", contexts=["ExpandingBloomFilter"], properties=["C09"],
         requires=_EREQ, modifies=["self._blooms"],
         let=[("full0", "self._blooms[len(self._blooms) - 1]._els_added >= eb_est(self)")],
         ensures=[("grows_exactly_when_newest_is_full", "len(self._blooms) == old(len(self._blooms)) + (1 if full0 else 0)"),
                  ("older_sub_filters_kept", _OLDER_KEPT),
                  ("newest_is_empty_after_growth", "implies(full0, " + _NEWEST_FRESH + ")"),
                  ("newest_has_room", "self._blooms[len(self._blooms) - 1]._els_added < eb_est(self)"),
                  ("inv", "inv_exp(self)")])

contract("ExpandingBloomFilter.push", contexts=["ExpandingBloomFilter"], properties=["C09"],
         requires=_EREQ, modifies=["self._blooms"],
         ensures=[("one_more_sub_filter", "len(self._blooms) == old(len(self._blooms)) + 1"),
                  ("older_sub_filters_kept", _OLDER_KEPT),
                  ("newest_is_empty_with_the_filters_geometry", _NEWEST_FRESH), ("inv", "inv_exp(self)")])

contract("ExpandingBloomFilter.add_alt", contexts=["ExpandingBloomFilter"], properties=["C09", "C01", "C14"],
         params={"hashes": "list[int]", "force": "bool"},
         requires=_EREQ + [_HLEN],
         let=[("present0", "exp_reports(self, hashes)"),
              ("full0", "self._blooms[len(self._blooms) - 1]._els_added >= eb_est(self)"),
              ("n0", "len(self._blooms)")],
         modifies=["self._blooms", "self._added_elements"],
         ensures=[("every_call_is_counted", "self._added_elements == old(self._added_elements) + 1"),
                  ("duplicate_inserts_nothing",
                   "implies(present0 and not force, len(self._blooms) == n0 and "
                   "all(self._blooms[q] == old(self._blooms[q]) for q in range(0, n0)))"),
                  ("grows_exactly_when_newest_is_full",
                   "implies(force or not present0, len(self._blooms) == n0 + (1 if full0 else 0))"),
                  ("older_sub_filters_kept",
                   "implies(force or not present0, all(self._blooms[q] == old(self._blooms[q]) "
                   "for q in range(0, len(self._blooms) - 1)))"),
                  ("inserted_into_the_newest_sub_filter",
                   "implies(force or not present0, implies(not full0, added_to(self._blooms[n0 - 1], old(self._blooms[n0 - 1]), hashes)) and "
                   "implies(full0, self._blooms[n0]._els_added == 1 and sub_reports(self._blooms[n0], hashes)))"),
                  ("reported_afterwards", "exp_reports(self, hashes)"),
                  ("inv", "inv_exp(self)")])

_EHK = "strategy(eb_hf(self), key, bloom_k(eb_est(self), bloom_m(eb_est(self), f32(eb_fpr(self)))))"
_EKREQ = [("inv", "inv_exp(self)"),
          ("rate_accepted", "(eb_fpr(self) < 0.0 or f32(eb_fpr(self)) > 0.0) and 0 <= eb_fpr(self) < 1"),
          ("strategy_returns_enough", "len(" + _EHK + ") >= bloom_k(eb_est(self), bloom_m(eb_est(self), f32(eb_fpr(self))))")]

contract("ExpandingBloomFilter.check", contexts=["ExpandingBloomFilter", "RotatingBloomFilter"], properties=["C01", "C09", "C10", "C19"],
         params={"key": "key"}, returns="bool", requires=_EKREQ, modifies=[],
         ensures=[("some_sub_filter_reports_it", "result == exp_reports(self, " + _EHK + ")")])

contract("ExpandingBloomFilter.add", contexts=["ExpandingBloomFilter"], properties=["C01", "C09", "C14"],
         params={"key": "key", "force": "bool"}, requires=_EKREQ,
         let=[("present0", "exp_reports(self, " + _EHK + ")"),
              ("full0", "self._blooms[len(self._blooms) - 1]._els_added >= eb_est(self)"), ("n0", "len(self._blooms)")],
         modifies=["self._blooms", "self._added_elements"],
         ensures=[("every_call_is_counted", "self._added_elements == old(self._added_elements) + 1"),
                  ("duplicate_inserts_nothing",
                   "implies(present0 and not force, len(self._blooms) == n0 and "
                   "all(self._blooms[q] == old(self._blooms[q]) for q in range(0, n0)))"),
                  ("grows_exactly_when_newest_is_full",
                   "implies(force or not present0, len(self._blooms) == n0 + (1 if full0 else 0))"),
                  ("reported_afterwards", "exp_reports(self, " + _EHK + ")"), ("inv", "inv_exp(self)")])

contract("ExpandingBloomFilter.__init__", contexts=["ExpandingBloomFilter"], properties=["C09", "C01"],
         params={"est_elements": "opt[int]", "false_positive_rate": "opt[float]", "filepath": "none", "hash_function": "opt[hashfunc]"},
         let=[("e0", "est_elements if est_elements is not None else 100"),
              ("p0", "false_positive_rate if false_positive_rate is not None else 0.0")],
         requires=[("usable_geometry", "e0 >= 1 and 0 < f32(p0) < 1 and 0 <= p0 < 1 and bloom_k(e0, bloom_m(e0, f32(p0))) >= 1 and "
                                       "bloom_m(e0, f32(p0)) < 2**53")],
         modifies=["self"],
         ensures=[("one_empty_sub_filter", "len(self._blooms) == 1 and " + _NEWEST_FRESH),
                  ("parameters", "eb_est(self) == e0 and eb_fpr(self) == p0 and self._added_elements == 0 and "
                                 "eb_hf(self) == (hash_function if hash_function is not None else default_fnv_1a)"),
                  ("inv", "inv_exp(self)")])

# ---- rotating ---------------------------------------------------------------------------------------------------
def _rot(s):
    return s.replace("SELFQ", "self._queue_size")


_RREQ = _EREQ + [("queue_limit", "self._queue_size >= 1 and len(self._blooms) <= self._queue_size")]
_FULLR = "self._blooms[len(self._blooms) - 1]._els_added == eb_est(self)"

contract("RotatingBloomFilter.__add_bloom_filter", contexts=["RotatingBloomFilter"], properties=["C10"],
         requires=[("geometry_usable", "eb_est(self) >= 1 and 0 < f32(eb_fpr(self)) < 1 and "
                                       "bloom_k(eb_est(self), bloom_m(eb_est(self), f32(eb_fpr(self)))) >= 1 and "
                                       "bloom_m(eb_est(self), f32(eb_fpr(self))) < 2**53 and "
                                       "(eb_fpr(self) < 0.0 or f32(eb_fpr(self)) > 0.0) and 0 <= eb_fpr(self) < 1")],
         modifies=["self._blooms"],
         ensures=[("one_more_sub_filter", "len(self._blooms) == old(len(self._blooms)) + 1"),
                  ("older_sub_filters_kept", _OLDER_KEPT),
                  ("newest_is_empty_with_the_filters_geometry", _NEWEST_FRESH)])

contract("RotatingBloomFilter.__rotate_bloom_filter", contexts=["RotatingBloomFilter"], properties=["C10"],
         params={"force": "bool"}, requires=_RREQ,
         let=[("full0", _FULLR), ("n0", "len(self._blooms)"), ("room0", "len(self._blooms) < self._queue_size")],
         modifies=["self._blooms"],
         ensures=[("nothing_happens_unless_forced_or_full",
                   "implies(not force and not full0, len(self._blooms) == n0 and "
                   "all(self._blooms[q] == old(self._blooms[q]) for q in range(0, n0)))"),
                  ("appends_when_there_is_room",
                   "implies((force or full0) and room0, len(self._blooms) == n0 + 1 and "
                   "all(self._blooms[q] == old(self._blooms[q]) for q in range(0, n0)) and " + _NEWEST_FRESH + ")"),
                  ("drops_the_oldest_when_the_queue_is_full",
                   "implies((force or full0) and not room0, len(self._blooms) == n0 and "
                   "all(self._blooms[q] == old(self._blooms[q + 1]) for q in range(0, n0 - 1)) and " + _NEWEST_FRESH + ")"),
                  ("inv", "inv_exp(self)"), ("bounded", "1 <= len(self._blooms) <= self._queue_size")])

contract("RotatingBloomFilter.push", contexts=["RotatingBloomFilter"], properties=["C10"],
         requires=_RREQ, let=[("n0", "len(self._blooms)"), ("room0", "len(self._blooms) < self._queue_size")],
         modifies=["self._blooms"],
         ensures=[("appends_or_rotates", "len(self._blooms) == (n0 + 1 if room0 else n0) and " + _NEWEST_FRESH),
                  ("inv", "inv_exp(self)"), ("bounded", "1 <= len(self._blooms) <= self._queue_size")])

contract("RotatingBloomFilter.pop", contexts=["RotatingBloomFilter"], properties=["C10"],
         requires=_RREQ, raises={"RotatingBloomFilterError": "len(self._blooms) == 1"},
         modifies=["self._blooms"],
         ensures=[("oldest_dropped", "len(self._blooms) == old(len(self._blooms)) - 1 and "
                                     "all(self._blooms[q] == old(self._blooms[q + 1]) for q in range(0, len(self._blooms)))"),
                  ("inv", "inv_exp(self)"), ("bounded", "1 <= len(self._blooms) <= self._queue_size")])

contract("RotatingBloomFilter.add_alt", contexts=["RotatingBloomFilter"], properties=["C10", "C01", "C14"],
         params={"hashes": "list[int]", "force": "bool"},
         requires=_RREQ + [_HLEN],
         let=[("present0", "exp_reports(self, hashes)"), ("full0", _FULLR), ("n0", "len(self._blooms)"),
              ("room0", "len(self._blooms) < self._queue_size")],
         modifies=["self._blooms", "self._added_elements"],
         ensures=[("every_call_is_counted", "self._added_elements == old(self._added_elements) + 1"),
                  ("duplicate_inserts_nothing",
                   "implies(present0 and not force, len(self._blooms) == n0 and "
                   "all(self._blooms[q] == old(self._blooms[q]) for q in range(0, n0)))"),
                  ("inserted_into_newest_no_rotation",
                   "implies((force or not present0) and not full0, len(self._blooms) == n0 and "
                   "all(self._blooms[q] == old(self._blooms[q]) for q in range(0, n0 - 1)) and "
                   "added_to(self._blooms[n0 - 1], old(self._blooms[n0 - 1]), hashes))"),
                  ("rotation_keeps_all_when_room",
                   "implies((force or not present0) and full0 and room0, len(self._blooms) == n0 + 1 and "
                   "all(self._blooms[q] == old(self._blooms[q]) for q in range(0, n0)) and "
                   "self._blooms[n0]._els_added == 1 and sub_reports(self._blooms[n0], hashes))"),
                  ("rotation_drops_only_the_oldest",
                   "implies((force or not present0) and full0 and not room0, len(self._blooms) == n0 and "
                   "all(self._blooms[q] == old(self._blooms[q + 1]) for q in range(0, n0 - 1)) and "
                   "self._blooms[n0 - 1]._els_added == 1 and sub_reports(self._blooms[n0 - 1], hashes))"),
                  ("reported_afterwards", "exp_reports(self, hashes)"),
                  ("inv", "inv_exp(self)"), ("bounded", "1 <= len(self._blooms) <= self._queue_size")])


# ---- export / load of the expanding format (C05, C01, C09): byte-stream model --------------------------------------------
_XSTRIDE = "(eb_cells(self) + 8)"
_XREQ = [("inv", "inv_exp(self)"),
         ("counters_fit_uint64", "0 <= self._added_elements < 2**64 and eb_est(self) < 2**64 and len(self._blooms) < 2**64")]
_XBEFORE = "old(len(written(file)))"
_XSUB = ("u64_at(written(file), {base} + smul(q, {S}), self._blooms[q]._els_added) and "
         "all(written(file)[{base} + smul(q, {S}) + 8 + j] == self._blooms[q]._bloom[j] for j in range(0, eb_cells(self)))")
contract("ExpandingBloomFilter.export", contexts=["ExpandingBloomFilter", "RotatingBloomFilter"], properties=["C05", "C01", "C09", "C19", "C06"],
         params={"file": "stream"}, requires=_XREQ, modifies=["file"],
         ensures=[("appends_every_sub_filter_and_the_footer",
                   f"len(written(file)) == {_XBEFORE} + smul(len(self._blooms), {_XSTRIDE}) + 28"),
                  ("earlier_bytes_kept", f"all(written(file)[i] == old(written(file))[i] for i in range(0, {_XBEFORE}))"),
                  ("documented_layout", f"exp_image(self, written(file), {_XBEFORE})")],
         loops={0: {"invariant": [
             ("length", f"len(written(file)) == {_XBEFORE} + smul(_i, {_XSTRIDE})"),
             ("earlier_bytes_kept", f"all(written(file)[i] == old(written(file))[i] for i in range(0, {_XBEFORE}))"),
             ("sub_filters_so_far", "all(" + _XSUB.format(base=_XBEFORE, S=_XSTRIDE) + " for q in range(0, _i))")]}})

_XALL = ["ExpandingBloomFilter", "RotatingBloomFilter"]
contract("ExpandingBloomFilter.__bytes__", contexts=_XALL, properties=["C05", "C01", "C09", "C19", "C06"],
         returns="bytes", requires=_XREQ, modifies=[],
         ensures=[("size", f"len(result) == smul(len(self._blooms), {_XSTRIDE}) + 28"),
                  ("documented_layout", "exp_image(self, result, 0)")])

contract("ExpandingBloomFilter._parse_footer", kind="classmethod", contexts=_XALL, properties=["C05", "C01", "C09", "C06", "C10"],
         params={"b": "bytes"}, variants=[{"b": "mmap"}], returns="tuple[int,int,int,float]",
         requires=[("has_footer", "len(b) >= 28")], modifies=[],
         ensures=[("number_of_sub_filters_field", "result[0] == le_bytes(b, len(b) - 28, 8)"),
                  ("estimated_elements_field", "result[1] == le_bytes(b, len(b) - 20, 8)"),
                  ("elements_added_field", "result[2] == le_bytes(b, len(b) - 12, 8)"),
                  ("rate_field", "result[3] == f32_at(b, len(b) - 4)")])

_XGEOM = ("eb_est(self) >= 1 and 0 < f32(eb_fpr(self)) < 1 and "
          "bloom_k(eb_est(self), bloom_m(eb_est(self), f32(eb_fpr(self)))) >= 1 and "
          "bloom_m(eb_est(self), f32(eb_fpr(self))) < 2**53 and "
          "(eb_fpr(self) < 0.0 or f32(eb_fpr(self)) > 0.0) and 0 <= eb_fpr(self) < 1")
_XLOADED = ("sub_geo(self, self._blooms[q]) and self._blooms[q]._els_added == le_bytes(b, smul(q, {S}), 8) and "
            "all(self._blooms[q]._bloom[j] == b[smul(q, {S}) + 8 + j] for j in range(0, eb_cells(self)))")
contract("ExpandingBloomFilter._parse_blooms", contexts=_XALL, properties=["C05", "C01", "C09", "C06", "C10"],
         params={"b": "bytes", "size": "int"}, variants=[{"b": "mmap"}],
         requires=[("geometry_usable", _XGEOM), ("size_not_negative", "size >= 0"),
                   ("every_sub_filter_present", f"len(b) >= smul(size, {_XSTRIDE})")],
         modifies=["self._blooms"], rebinds=["self._blooms"],
         ensures=[("as_many_sub_filters_as_the_footer_says", "len(self._blooms) == size"),
                  ("each_sub_filter_is_its_record", "all(" + _XLOADED.format(S=_XSTRIDE) + " for q in range(0, size))")],
         loops={0: {"invariant": [
             ("count", "len(self._blooms) == _i"),
             ("record_size", "blm_size == (0 if _i == 0 else eb_cells(self))"),
             ("position", f"start == smul(_i, {_XSTRIDE})"),
             ("records_so_far", "all(" + _XLOADED.format(S=_XSTRIDE) + " for q in range(0, _i))")]}})

# the footer of b describes a usable geometry and b holds as many records as it says
_XFOOT = ("le_bytes(b, len(b) - 20, 8) >= 1 and 0 < f32_at(b, len(b) - 4) < 1 and "
          "bloom_k(le_bytes(b, len(b) - 20, 8), bloom_m(le_bytes(b, len(b) - 20, 8), f32_at(b, len(b) - 4))) >= 1 and "
          "bloom_m(le_bytes(b, len(b) - 20, 8), f32_at(b, len(b) - 4)) < 2**53")
_XRECS = ("len(b) >= 28 + smul(le_bytes(b, len(b) - 28, 8), "
          "cdiv(bloom_m(le_bytes(b, len(b) - 20, 8), f32_at(b, len(b) - 4)), 8) + 8)")
_XRES = [("number_of_sub_filters", "len(result._blooms) == le_bytes(b, len(b) - 28, 8)"),
         ("estimated_elements", "eb_est(result) == le_bytes(b, len(b) - 20, 8)"),
         ("elements_added", "result._added_elements == le_bytes(b, len(b) - 12, 8)"),
         ("rate", "eb_fpr(result) == f32_at(b, len(b) - 4)"),
         ("hash_function_kept_or_default", "eb_hf(result) == (hash_function if hash_function is not None else default_fnv_1a)"),
         ("each_sub_filter_is_its_record",
          "all(" + _XLOADED.format(S="(eb_cells(result) + 8)").replace("self", "result") + " for q in range(0, len(result._blooms)))")]
contract("ExpandingBloomFilter.frombytes", kind="classmethod", contexts=["ExpandingBloomFilter"], properties=["C05", "C01", "C09"],
         params={"b": "bytes", "hash_function": "opt[hashfunc]"}, returns="obj:ExpandingBloomFilter",
         requires=[("has_footer", "len(b) >= 28"), ("stored_geometry_usable", _XFOOT), ("records_present", _XRECS)],
         modifies=[], ensures=_XRES)

# the body of ExpandingBloomFilter.__init__ reached through super().__init__ with a rotating receiver, and the rotating
# constructor / loader
clone_contract("ExpandingBloomFilter.__init__", "ExpandingBloomFilter.__init__@RotatingBloomFilter", contexts=["RotatingBloomFilter"],
               properties=["C10", "C05"])
contract("RotatingBloomFilter.__init__", contexts=["RotatingBloomFilter"], properties=["C10", "C05"],
         params={"est_elements": "opt[int]", "false_positive_rate": "opt[float]", "max_queue_size": "int", "filepath": "none",
                 "hash_function": "opt[hashfunc]"},
         let=[("e0", "est_elements if est_elements is not None else 100"),
              ("p0", "false_positive_rate if false_positive_rate is not None else 0.0")],
         requires=[("usable_geometry", "e0 >= 1 and 0 < f32(p0) < 1 and 0 <= p0 < 1 and bloom_k(e0, bloom_m(e0, f32(p0))) >= 1 and "
                                       "bloom_m(e0, f32(p0)) < 2**53")],
         modifies=["self"],
         ensures=[("one_empty_sub_filter", "len(self._blooms) == 1 and " + _NEWEST_FRESH),
                  ("parameters", "eb_est(self) == e0 and eb_fpr(self) == p0 and self._added_elements == 0 and "
                                 "eb_hf(self) == (hash_function if hash_function is not None else default_fnv_1a)"),
                  ("queue_limit_recorded", "self._queue_size == max_queue_size"),
                  ("inv", "inv_exp(self)")])
contract("RotatingBloomFilter.frombytes", kind="classmethod", contexts=["RotatingBloomFilter"], properties=["C05", "C10", "C01"],
         params={"b": "bytes", "max_queue_size": "int", "hash_function": "opt[hashfunc]"}, returns="obj:RotatingBloomFilter",
         requires=[("has_footer", "len(b) >= 28"), ("stored_geometry_usable", _XFOOT), ("records_present", _XRECS)],
         modifies=[], ensures=_XRES + [("queue_limit_is_the_resupplied_one", "result._queue_size == max_queue_size")])

import re as _re  # noqa: E402
_XF = lambda t: _re.sub(r"\bb\b", "file", t)   # noqa: E731
contract("ExpandingBloomFilter.__load", contexts=_XALL, properties=["C05", "C09", "C01"],
         params={"file": "mmap"},
         requires=[("has_footer", "len(file) >= 28"), ("stored_geometry_usable", _XF(_XFOOT)), ("records_present", _XF(_XRECS)),
                   ("stored_rate_is_a_float32", "f32(f32_at(file, len(file) - 4)) == f32_at(file, len(file) - 4)")],
         modifies=["self._blooms", "self._added_elements", "self._ExpandingBloomFilter__fpr", "self._ExpandingBloomFilter__est_elements"],
         rebinds=["self._blooms"],
         ensures=[("number_of_sub_filters", "len(self._blooms) == le_bytes(file, len(file) - 28, 8)"),
                  ("estimated_elements", "eb_est(self) == le_bytes(file, len(file) - 20, 8)"),
                  ("elements_added", "self._added_elements == le_bytes(file, len(file) - 12, 8)"),
                  ("rate", "eb_fpr(self) == f32_at(file, len(file) - 4)"),
                  ("each_sub_filter_is_its_record",
                   "all(" + _XF(_XLOADED.format(S=_XSTRIDE)) +
                   " for q in range(0, len(self._blooms)))")])

contract("ExpandingBloomFilter.export@path", contexts=_XALL, properties=["C05", "C06", "C09", "C01"],
         params={"file": "key"}, loops={0: {"unreached": True}}, requires=_XREQ + [("a_path_is_given", "isinstance(file, str) and file != ''")], modifies=["fs"],
         ensures=[("file_holds_exactly_the_documented_export",
                   f"file_exists(resolve(file)) and len(file_bytes(resolve(file))) == smul(len(self._blooms), {_XSTRIDE}) + 28 and "
                   "exp_image(self, file_bytes(resolve(file)), 0)")])

from pyvc.api import CONTRACTS as _C  # noqa: E402
_xl = _C["ExpandingBloomFilter.__load"]
_XP = lambda t: _re.sub(r"\bfile\b", "file_bytes(resolve(file))", t)   # noqa: E731
contract("ExpandingBloomFilter.__load@path", contexts=_XALL, properties=["C05", "C09", "C01"],
         params={"file": "key"},
         requires=[("path_is_text", "isinstance(file, str)"), ("file_is_there", "file_exists(resolve(file))")]
         + [(n, _XP(t)) for n, t in _xl.requires],
         modifies=list(_xl.modifies), rebinds=["self._blooms"], ensures=[(n, _XP(t)) for n, t in _xl.ensures])

_XFP = lambda t: _re.sub(r"\bfile\b", "filepath", t)   # noqa: E731
contract("ExpandingBloomFilter.__init__@path", contexts=["ExpandingBloomFilter"], properties=["C05", "C09"],
         params={"est_elements": "opt[int]", "false_positive_rate": "opt[float]", "filepath": "key", "hash_function": "opt[hashfunc]"},
         requires=[(n, _XFP(t)) for n, t in _C["ExpandingBloomFilter.__load@path"].requires] + [("exists_as_given", "file_exists(filepath)")],
         modifies=["self"],
         ensures=[(n, _XFP(t)) for n, t in _C["ExpandingBloomFilter.__load@path"].ensures]
         + [("hash_function_kept_or_default", "eb_hf(self) == (hash_function if hash_function is not None else default_fnv_1a)")])
