"""C20 - probables.utilities.Bitarray"""
from pyvc.api import classinfo, contract

classinfo("Bitarray", "probables.utilities",
          {"_size_bytes": "int", "_bitarray": "array:B", "_size": "int"},
          inv="inv_bitarray(self)")

_OOR = "idx < 0 or idx >= self._size"
_SAME = "all(bit(self._bitarray, k) == old(bit(self._bitarray, k)) for k in range(0, 8 * self._size_bytes))"

contract("Bitarray.__init__", contexts=["Bitarray"], properties=["C20"],
         params={"size": "int"},
         requires=[("size_below_2_53", "size < 2**53")],
         raises={"ValueError": {"when": "size <= 0", "state": "any"}},
         modifies=["self"],
         ensures=[("inv", "inv_bitarray(self)"),
                  ("size", "self._size == size"),
                  ("all_zero", "all(not bit(self._bitarray, k) for k in range(0, 8 * self._size_bytes))"),
                  ("bytes_zero", "all(self._bitarray[b] == 0 for b in range(0, self._size_bytes))")])

contract("Bitarray.check_bit", contexts=["Bitarray"], properties=["C20"],
         params={"idx": "int"}, returns="int",
         requires=["inv_bitarray(self)"],
         raises={"IndexError": _OOR},
         modifies=[],
         ensures=[("value", "result == (1 if bit(self._bitarray, idx) else 0)"),
                  ("zero_or_one", "result == 0 or result == 1")])

contract("Bitarray.__getitem__", contexts=["Bitarray"], properties=["C20"],
         params={"key": "int"}, returns="int",
         requires=["inv_bitarray(self)"],
         raises={"IndexError": "key < 0 or key >= self._size"},
         modifies=[],
         ensures=[("value", "result == (1 if bit(self._bitarray, key) else 0)")])

contract("Bitarray.is_bit_set", contexts=["Bitarray"], properties=["C20"],
         params={"idx": "int"}, returns="bool",
         requires=["inv_bitarray(self)"],
         raises={"IndexError": _OOR},
         modifies=[],
         ensures=[("value", "result == bit(self._bitarray, idx)")])

contract("Bitarray.set_bit", contexts=["Bitarray"], properties=["C20"],
         params={"idx": "int"},
         requires=["inv_bitarray(self)"],
         raises={"IndexError": _OOR},
         modifies=["self._bitarray"],
         ensures=[("inv", "inv_bitarray(self)"),
                  ("only_idx_changes", "all(bit(self._bitarray, k) == (k == idx or old(bit(self._bitarray, k))) "
                                       "for k in range(0, 8 * self._size_bytes))")])

contract("Bitarray.clear_bit", contexts=["Bitarray"], properties=["C20"],
         params={"idx": "int"},
         requires=["inv_bitarray(self)"],
         raises={"IndexError": _OOR},
         modifies=["self._bitarray"],
         ensures=[("inv", "inv_bitarray(self)"),
                  ("only_idx_changes", "all(bit(self._bitarray, k) == (k != idx and old(bit(self._bitarray, k))) "
                                       "for k in range(0, 8 * self._size_bytes))")])

contract("Bitarray.__setitem__", contexts=["Bitarray"], properties=["C20"],
         params={"idx": "int", "val": "int"},
         requires=["inv_bitarray(self)"],
         raises={"ValueError": "val < 0 or val > 1",
                 "IndexError": "not (val < 0 or val > 1) and (idx < 0 or idx >= self._size)"},
         modifies=["self._bitarray"],
         ensures=[("inv", "inv_bitarray(self)"),
                  ("only_idx_changes", "all(bit(self._bitarray, k) == ((val == 1) if k == idx else "
                                       "old(bit(self._bitarray, k))) for k in range(0, 8 * self._size_bytes))")])

contract("Bitarray.clear", contexts=["Bitarray"], properties=["C20", "C19"],
         requires=["inv_bitarray(self)"],
         modifies=["self._bitarray"],
         ensures=[("inv", "inv_bitarray(self)"),
                  ("bytes_zero", "all(self._bitarray[b] == 0 for b in range(0, self._size_bytes))"),
                  ("all_zero", "all(not bit(self._bitarray, k) for k in range(0, 8 * self._size_bytes))")],
         loops={0: {"invariant": [("len", "len(self._bitarray) == old(len(self._bitarray))"),
                                  ("prefix_zero", "all(self._bitarray[b] == 0 for b in range(0, _i))")]}})

contract("Bitarray.num_bits_set", contexts=["Bitarray"], properties=["C20"],
         returns="int",
         requires=["inv_bitarray(self)"],
         modifies=[],
         ensures=[("popcount", "result == sum((1 if bit(self._bitarray, k) else 0) for k in range(0, self._size))")])
