"""Expectations for the syntactic may-write closure (pyvc/frames.py).

READ_ONLY[class]: methods / property getters that must not be able to write ANY field of self (C19).
OPERANDS: (class, method, parameter) whose fields must not be written (C13: operands are never modified).
WRITERS[(class, field)]: the only methods allowed to contain a direct write of that field (C15 capacity; C14 counters)."""

_BLOOM_RO = ["check", "check_alt", "hashes", "__contains__", "__str__", "__bytes__", "export", "export_hex",
             "export_c_header", "estimate_elements", "export_size", "current_false_positive_rate", "jaccard_index",
             "union", "intersection", "_cnt_number_bits_set", "_get_element", "_verify_bloom_similarity",
             "false_positive_rate", "estimated_elements", "number_hashes", "number_bits", "elements_added",
             "is_on_disk", "bloom_length", "bloom", "hash_function"]
_CMS_RO = ["check", "check_alt", "hashes", "__contains__", "__str__", "__bytes__", "export", "width", "depth",
           "confidence", "error_rate", "elements_added", "query_type", "__min_query", "__mean_query", "__mean_min_query"]
_CK_RO = ["check", "__contains__", "__str__", "__bytes__", "export", "load_factor", "_check_if_present",
          "_indicies_from_fingerprint", "_generate_fingerprint_info", "_calc_error_rate", "_calc_fingerprint_size",
          "elements_added", "capacity", "max_swaps", "bucket_size", "buckets", "expansion_rate", "error_rate",
          "auto_expand", "fingerprint_size_bits", "fingerprint_size"]

READ_ONLY = {
    "BloomFilter": _BLOOM_RO,
    # on-disk: export() and __bytes__ only refresh the count already held (checked by their contracts)
    "BloomFilterOnDisk": [m for m in _BLOOM_RO if m not in ("export",)],
    "CountingBloomFilter": _BLOOM_RO,
    "ExpandingBloomFilter": ["check", "check_alt", "__contains__", "__bytes__", "export", "expansions",
                             "false_positive_rate", "estimated_elements", "elements_added", "hash_function"],
    "RotatingBloomFilter": ["check", "check_alt", "__contains__", "__bytes__", "export", "expansions",
                            "false_positive_rate", "estimated_elements", "elements_added", "hash_function",
                            "max_queue_size", "current_queue_size"],
    "CountMinSketch": _CMS_RO, "CountMeanSketch": _CMS_RO, "CountMeanMinSketch": _CMS_RO,
    "HeavyHitters": _CMS_RO + ["heavy_hitters", "number_heavy_hitters"],
    "StreamThreshold": _CMS_RO + ["meets_threshold", "threshold"],
    "CuckooFilter": _CK_RO, "CountingCuckooFilter": _CK_RO + ["unique_elements"],
    "QuotientFilter": ["check", "check_alt", "__contains__", "hashes", "get_hashes", "print", "validate_metadata",
                       "_contained_at_loc", "_get_start_index", "_is_cluster_start", "_is_run_start",
                       "_is_run_or_cluster_start", "_is_empty_element", "_element_is", "quotient", "remainder",
                       "num_elements", "elements_added", "bits_per_elm", "size", "load_factor", "auto_expand",
                       "max_load_factor"],
    "Bitarray": ["__getitem__", "check_bit", "is_bit_set", "as_string", "num_bits_set", "size_bytes", "size", "bitarray"],
}

OPERANDS = [("BloomFilter", "union", "second"), ("BloomFilter", "intersection", "second"),
            ("BloomFilter", "jaccard_index", "second"), ("BloomFilter", "_verify_bloom_similarity", "second"),
            ("CountingBloomFilter", "union", "second"), ("CountingBloomFilter", "intersection", "second"),
            ("CountingBloomFilter", "jaccard_index", "second"), ("CountMinSketch", "join", "second"),
            ("QuotientFilter", "merge", "second")]

WRITERS = {
    ("CuckooFilter", "_cuckoo_capacity"): ["__init__", "_setup_expand", "_parse_footer", "_expand_logic"],
    ("CountingCuckooFilter", "_cuckoo_capacity"): ["__init__", "_setup_expand", "_parse_footer", "_parse_buckets", "_expand_logic"],
}
