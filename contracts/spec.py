from hashlib import md5, sha256  # noqa: E402,F401
from struct import unpack  # noqa: E402,F401

"""Specification functions.  ONE text, two uses: the engine translates these definitions to z3
(inlining them at each use), and the native replay / bounded layers execute them in CPython."""


def recursive(f):
    return f


def uninterpreted(f):
    return f


def opaque(f):
    """the engine treats the function as an uninterpreted symbol unless a contract lists it under `reveal`"""
    return f


def implies(a, b):
    return (not a) or b


def iff(a, b):
    return bool(a) == bool(b)


def cdiv(a, b):
    """ceiling division for b > 0"""
    return -((-a) // b)


def bit(arr, k):
    """bit k of a byte array: bit (k mod 8) of byte (k div 8) -- the documented C layout"""
    return (arr[k // 8] & (1 << (k % 8))) != 0


# ---- Bitarray -------------------------------------------------------------------------------
def inv_bitarray(s):
    return s._size >= 1 and s._size_bytes == cdiv(s._size, 8) and len(s._bitarray) == s._size_bytes


# ---- hashes ---------------------------------------------------------------------------------
FNV64_OFFSET = 14695981039346656037      # published FNV-1a 64-bit offset basis
FNV64_PRIME = 1099511628211              # published FNV-1a 64-bit prime
FNV32_OFFSET = 2166136261                # 0x811C9DC5
FNV32_PRIME = 16777619                   # 0x01000193


def key_units(key):
    """the integers FNV-1a consumes: code points of a text key, bytes of a bytes key"""
    return list(map(ord, key)) if isinstance(key, str) else list(key)


@recursive
def fnv64(data, n, seed):
    """published 64-bit FNV-1a over data[0:n], offset basis advanced by 31 per seed"""
    return ((14695981039346656037 + 31 * seed) % 18446744073709551616) if n <= 0 else \
        (((fnv64(data, n - 1, seed) ^ data[n - 1]) * 1099511628211) % 18446744073709551616)


@recursive
def fnv32(data, n, seed):
    """published 32-bit FNV-1a over data[0:n], offset basis advanced by 31 per seed"""
    return ((2166136261 + 31 * seed) % 4294967296) if n <= 0 else \
        (((fnv32(data, n - 1, seed) ^ data[n - 1]) * 16777619) % 4294967296)


def start_bytes(key):
    """what the bytes-decorator feeds to the first digest: the key itself, text keys as UTF-8"""
    return key if not isinstance(key, str) else key.encode("utf-8")


def le64(blob):
    """first 8 bytes as an unsigned 64-bit integer (native byte order of the x86-64 host: little endian)"""
    return unpack("Q", blob[:8])[0]


@recursive
def chain_blob(func, k0, i) -> bytes:
    """digest chain of hash_with_depth_bytes: t_0 = func(k0, 0), t_i = func(t_(i-1), i)"""
    return func(k0, 0) if i <= 0 else func(chain_blob(func, k0, i - 1), i)


@recursive
def chain_int(func, key, i):
    """chain of hash_with_depth_int: h_0 = func(key, 0), h_i = func(hex(h_(i-1)), i)"""
    return func(key, 0) if i <= 0 else func(f"{chain_int(func, key, i - 1):x}", i)


def md5_digest(key):
    return md5(key).digest()


def sha256_digest(key):
    return sha256(key).digest()


# ---- Bloom filters ----------------------------------------------------------------------------
def inv_bloom(s):
    """representation invariant shared by the in-memory and the on-disk Bloom filter"""
    return (s._num_bits >= 1 and s._number_hashes >= 1 and s._bloom_length == cdiv(s._num_bits, 8)
            and len(s._bloom) >= s._bloom_length)


def hit(hashes, n, m, k):
    """position k is selected by one of the first n hashes (position = hash mod number_bits)"""
    return any(hashes[j] % m == k for j in range(0, n))


# ---- reals (native versions; symbolically these are uninterpreted real functions) -----------------
def f32(x):
    """narrow to IEEE binary32 and widen back (what struct 'f' does; mimics the C float)"""
    import struct
    return struct.unpack("f", struct.pack("f", float(x)))[0]


def ln(x):
    import math
    return math.log(x)


def exp_(x):
    import math
    return math.exp(x)


def log2_(x):
    import math
    return math.log2(x)


def pow_(x, y):
    import math
    return math.pow(x, y)


def ceil_(x):
    import math
    return math.ceil(x)


@opaque
def bloom_m(n, p32):
    """number of bits the library derives: ceil(-n ln(p) / ln(2)^2) with the code's constant"""
    return ceil_((-n * ln(p32)) / 0.4804530139182)


@opaque
def bloom_k(n, m):
    """number of hashes: round(ln 2 * m / n) with the code's constant"""
    return int(round(0.6931471805599453 * m / n))


def geo_bloom(s):
    """the geometry is the one the library derives from (estimated_elements, float32 rate)"""
    return (s._est_elements >= 1 and s._fpr == f32(s._fpr) and 0 < s._fpr < 1
            and s._num_bits == bloom_m(s._est_elements, s._fpr)
            and s._number_hashes == bloom_k(s._est_elements, s._num_bits))


def inv_bloom_mem(s):
    """in-memory Bloom filter: byte array of exactly bloom_length bytes"""
    return inv_bloom(s) and len(s._bloom) == s._bloom_length


def popcount_bytes(arr, n):
    """number of set bits in arr[0:n]"""
    return sum(bin(arr[i]).count("1") for i in range(0, n))


def strategy(func, key, depth):
    """a hashing strategy applied to (key, depth)"""
    return func(key, depth)


def est_elements_formula(m, k, x):
    """-(m/k) ln(1 - X/m), truncated toward zero"""
    return int(-1 * (float(m) / float(k)) * ln(1 - (float(x) / float(m))))


def compatible_blooms(a, b):
    """what the library tests before union / intersection / jaccard: same number of hashes, same
    number of bits, same answer of the two hashing strategies on a probe key"""
    return (a._number_hashes == b._number_hashes and a._num_bits == b._num_bits
            and strategy(a._hash_func, "test", a._number_hashes) == strategy(b._hash_func, "test", b._number_hashes))


def popcount_or(a, b, n):
    return sum(bin(a[i] | b[i]).count("1") for i in range(0, n))


def popcount_and(a, b, n):
    return sum(bin(a[i] & b[i]).count("1") for i in range(0, n))


def inv_bloom_disk(s):
    """on-disk filter: the mapped file is the bit array followed by the 20-byte footer"""
    return inv_bloom(s) and len(s._bloom) == s._bloom_length + 20


def le_bytes(arr, off, width):
    """little-endian unsigned integer stored in arr[off:off+width]"""
    return sum(arr[off + i] * 256 ** i for i in range(0, width))


def fp_open(s):
    return s._BloomFilterOnDisk__file_pointer is not None and not s._BloomFilterOnDisk__file_pointer.closed


def be_bytes(arr, off, width):
    """big-endian unsigned integer stored in arr[off:off+width]"""
    return sum(arr[off + i] * 256 ** (width - 1 - i) for i in range(0, width))


# ---- counting Bloom filter -----------------------------------------------------------------------
UINT32_MAX = 4294967295
UINT64_MAX = 18446744073709551615


def inv_cbloom(s):
    """counting Bloom filter: one uint32 cell per position"""
    return (s._num_bits >= 1 and s._number_hashes >= 1 and s._bloom_length == s._num_bits
            and len(s._bloom) == s._bloom_length)


def wsum(hashes, n, m, c, w):
    """total weight the first n hashes put on cell c: w for every j < n with hashes[j] mod m == c
    (positions that coincide count once each)"""
    return sum((w if hashes[j] % m == c else 0) for j in range(0, n))


def sat32(v):
    return v if v <= 4294967295 else 4294967295


def wsum_range(hashes, lo, hi, m, c, w):
    """weight hashes[lo:hi] put on cell c"""
    return sum((w if hashes[j] % m == c else 0) for j in range(lo, hi))


def nonzero_cells(arr, n):
    """number of cells of arr[0:n] that are > 0"""
    return sum((1 if arr[i] > 0 else 0) for i in range(0, n))


# ---- count-min sketch ----------------------------------------------------------------------------------
INT32_MAX = 2147483647
INT32_MIN = -2147483648
INT64_MAX = 9223372036854775807
INT64_MIN = -9223372036854775808


def cw(s):
    return s._CountMinSketch__width


def cd(s):
    return s._CountMinSketch__depth


def ctotal(s):
    return s._CountMinSketch__elements_added


def valid_query_mode(s):
    return (s._CountMinSketch__query_method == s._CountMinSketch__min_query
            or s._CountMinSketch__query_method == s._CountMinSketch__mean_query
            or s._CountMinSketch__query_method == s._CountMinSketch__mean_min_query)


def inv_cms(s):
    """depth x width int32 counters, row i in cells [i*width, (i+1)*width)"""
    return (cw(s) >= 1 and cd(s) >= 1 and len(s._bins) == cw(s) * cd(s)
            and -9223372036854775808 <= ctotal(s) <= 9223372036854775807 and valid_query_mode(s))


def clamp32(v):
    return 2147483647 if v > 2147483647 else (-2147483648 if v < -2147483648 else v)


def clamp64(v):
    return 9223372036854775807 if v > 9223372036854775807 else (-9223372036854775808 if v < -9223372036854775808 else v)


def is_min_mode(s):
    return s._CountMinSketch__query_method == s._CountMinSketch__min_query


def row_cell(s, hashes, i):
    """the counter row i uses for a key with these hashes"""
    return s._bins[(hashes[i] % cw(s)) + i * cw(s)]


# ---- dictionaries (heavy hitters / threshold tables) -------------------------------------------------------
def upd(m, k, v):
    d = dict(m)
    d[k] = v
    return d


def rem(m, k):
    d = dict(m)
    d.pop(k, None)
    return d


def allkeys(*maps):
    """symbolically: every key; natively: the keys that occur in the given dictionaries"""
    out = set()
    for m in maps:
        out |= set(m)
    return out


# ---- expanding / rotating Bloom filters ---------------------------------------------------------------------
def eb_est(s):
    return s._ExpandingBloomFilter__est_elements


def eb_fpr(s):
    return s._ExpandingBloomFilter__fpr


def eb_hf(s):
    return s._ExpandingBloomFilter__hash_func


def sub_ok(s, b):
    """sub-filter b of the expanding filter s: an in-memory Bloom filter of s's geometry, within capacity"""
    return (inv_bloom_mem(b) and b._est_elements == eb_est(s) and b._fpr == f32(eb_fpr(s))
            and b._num_bits == bloom_m(eb_est(s), f32(eb_fpr(s))) and b._number_hashes == bloom_k(eb_est(s), b._num_bits)
            and b._hash_func == eb_hf(s) and 0 <= b._els_added)


def sub_geo(s, b):
    """b is an in-memory Bloom filter with the geometry and hash function of the expanding filter s"""
    return (inv_bloom_mem(b) and b._est_elements == eb_est(s) and b._fpr == f32(eb_fpr(s)) and geo_bloom(b)
            and b._hash_func == eb_hf(s))


def inv_exp(s):
    """expanding filter: at least one sub-filter, all of the same geometry, none over capacity"""
    return (len(s._blooms) >= 1 and eb_est(s) >= 1 and 0 < f32(eb_fpr(s)) < 1
            and bloom_k(eb_est(s), bloom_m(eb_est(s), f32(eb_fpr(s)))) >= 1
            and bloom_m(eb_est(s), f32(eb_fpr(s))) < 2**53
            and all(sub_ok(s, s._blooms[q]) and s._blooms[q]._els_added <= eb_est(s) for q in range(0, len(s._blooms))))


def sub_reports(b, hashes):
    """sub-filter b has every position of the hash list set
    (the always-true first conjunct anchors quantifier instantiation on the sub-filter)"""
    return len(b._bloom) >= 0 and all(bit(b._bloom, hashes[j] % b._num_bits) for j in range(0, b._number_hashes))


def exp_reports(s, hashes):
    """some sub-filter reports the hash list"""
    return any(sub_reports(s._blooms[q], hashes) for q in range(0, len(s._blooms)))


def added_to(b, b0, hashes):
    """b is b0 after one add_alt(hashes): positions or-ed in, nothing else changed, counter + 1"""
    return (all(bit(b._bloom, k) == (bit(b0._bloom, k) or (k < b0._num_bits and hit(hashes, b0._number_hashes, b0._num_bits, k)))
                for k in range(0, 8 * b0._bloom_length))
            and b._els_added == b0._els_added + 1 and len(b._bloom) == len(b0._bloom)
            and b._num_bits == b0._num_bits and b._number_hashes == b0._number_hashes and b._bloom_length == b0._bloom_length
            and b._est_elements == b0._est_elements and b._fpr == b0._fpr and b._hash_func == b0._hash_func)


def g_exp(s, total):
    """C09 ghost invariant: every sub-filter but the newest is exactly full, the newest is non-empty once there
    are several, and `total` (the number of effective insertions) is the sum of the sub-filters' counters"""
    return (all(len(s._blooms[q]._bloom) >= 0 and s._blooms[q]._els_added == eb_est(s) for q in range(0, len(s._blooms) - 1))
            and (len(s._blooms) == 1 or s._blooms[len(s._blooms) - 1]._els_added >= 1)
            and total == (len(s._blooms) - 1) * eb_est(s) + s._blooms[len(s._blooms) - 1]._els_added)


def g_rot(s, hx, slot, after, age):
    """C10 ghost invariant for one key (hash list hx) inserted when it was reported absent:
    slot = index of the sub-filter holding it, after = later insertions into that sub-filter,
    age = effective insertions since the key's own"""
    n = len(s._blooms)
    return (0 <= slot < n and sub_reports(s._blooms[slot], hx)
            and 0 <= after <= s._blooms[slot]._els_added - 1
            and s._blooms[n - 1]._els_added >= 1
            and all(len(s._blooms[q]._bloom) >= 0 and s._blooms[q]._els_added == eb_est(s) for q in range(slot, n - 1))
            and age == (after if slot == n - 1 else after + (n - 2 - slot) * eb_est(s) + s._blooms[n - 1]._els_added))


# ---- cuckoo filters ----------------------------------------------------------------------------------------------
def tcount(buckets, n, f):
    """occurrences of f in the first n buckets"""
    return sum(list(b).count(f) for b in buckets[:max(n, 0)])


def tsize(buckets, n):
    """number of stored entries in the first n buckets"""
    return sum(len(b) for b in buckets[:max(n, 0)])


def lcount(lst, lo, hi, f):
    """occurrences of f in lst[lo:hi]"""
    return list(lst[lo:hi]).count(f) if hi > lo else 0


def ck_cap(s):
    return s._cuckoo_capacity


def ck_alt(s, fp):
    """the second candidate bucket of a fingerprint: hash of its decimal text, modulo the capacity"""
    return s._CuckooFilter__hash_func(str(fp)) % s._cuckoo_capacity


def inv_cuckoo(s):
    """well-formed bucket table: capacity buckets of at most bucket_size fingerprints, every fingerprint in one of
    its two candidate buckets, no fingerprint stored twice, counter = number of stored fingerprints"""
    return (s._cuckoo_capacity >= 1 and s._bucket_size >= 1 and len(s._buckets) == s._cuckoo_capacity
            and all(0 <= len(s._buckets[b]) <= s._bucket_size for b in range(0, s._cuckoo_capacity))
            and all(all(b == s._buckets[b][j] % s._cuckoo_capacity or b == ck_alt(s, s._buckets[b][j])
                        for j in range(0, len(s._buckets[b]))) for b in range(0, s._cuckoo_capacity))
            and nodup(s._buckets, s._cuckoo_capacity)
            and s._inserted_elements == tsize(s._buckets, s._cuckoo_capacity))


def nodup(buckets, n):
    """no value is stored twice in the first n buckets (symbolically: for every f, tcount(buckets, n, f) <= 1)"""
    flat = [x for b in buckets[:max(n, 0)] for x in b]
    return len(flat) == len(set(flat))


def present(s, fp):
    """fingerprint fp is stored somewhere in the table"""
    return tcount(s._buckets, s._cuckoo_capacity, fp) >= 1


def ck_shape(s):
    return (s._cuckoo_capacity >= 1 and s._bucket_size >= 1 and len(s._buckets) == s._cuckoo_capacity
            and all(0 <= len(s._buckets[b]) <= s._bucket_size for b in range(0, s._cuckoo_capacity)))


def ck_placed(s):
    return all(all(b == s._buckets[b][j] % s._cuckoo_capacity or b == ck_alt(s, s._buckets[b][j])
                   for j in range(0, len(s._buckets[b]))) for b in range(0, s._cuckoo_capacity))


def same(a, b):
    """identical values (lists compared element-wise; symbolically: identical cell arrays)"""
    return list(a) == list(b) if hasattr(a, "__len__") else a == b


def ck_fp(s, key):
    """fingerprint of a key: the low fingerprint_size_bits bits of its hash"""
    return s._CuckooFilter__hash_func(key) % 2 ** s._fingerprint_size


def undone_table(buckets, hand, swaps, n):
    """the table after swapping back the first n recorded (bucket, slot) swaps, newest first"""
    t = [list(b) for b in buckets]
    for b, j in reversed(list(swaps)[:max(n, 0)]):
        hand, t[b][j] = t[b][j], hand
    return t


def undone_hand(buckets, hand, swaps, n):
    t = [list(b) for b in buckets]
    for b, j in reversed(list(swaps)[:max(n, 0)]):
        hand, t[b][j] = t[b][j], hand
    return hand


# ---- counting cuckoo filter (natively evaluated specification: bounded stand-in, see DESIGN) ---------------------
def cc_counts(s):
    """fingerprint -> total count over all bins holding it"""
    out = {}
    for b in s._buckets:
        for x in b:
            out[x.finger] = out.get(x.finger, 0) + x.count
    return out


def cc_bins(s):
    """fingerprint -> number of bins holding it"""
    out = {}
    for b in s._buckets:
        for x in b:
            out[x.finger] = out.get(x.finger, 0) + 1
    return out


def cc_fp(s, key):
    return s._CuckooFilter__hash_func(key) % 2 ** s._fingerprint_size


def cc_wellformed(s):
    """C15 for the counting filter: bucket sizes, placement, no fingerprint in two bins, no bin with count 0,
    elements_added = sum of counts, unique_elements = number of bins"""
    cap = s._cuckoo_capacity
    if cap < 1 or len(s._buckets) != cap:
        return False
    for b, bucket in enumerate(s._buckets):
        if len(bucket) > s._bucket_size:
            return False
        for x in bucket:
            if x.count <= 0:
                return False
            if b != x.finger % cap and b != s._CuckooFilter__hash_func(str(x.finger)) % cap:
                return False
    return (all(v == 1 for v in cc_bins(s).values()) and s._inserted_elements == sum(cc_counts(s).values())
            and s._CountingCuckooFilter__unique_elements == sum(cc_bins(s).values()))


def dict_plus(d, k, n):
    out = dict(d)
    out[k] = out.get(k, 0) + n
    if out[k] == 0:
        del out[k]
    return out


# ---- serialisation -----------------------------------------------------------------------------------------------------
def written(f):
    """the bytes written to a file object so far"""
    return f.getvalue() if hasattr(f, "getvalue") else bytes(f)


def f32_at(b, off):
    """the IEEE binary32 value stored little-endian at b[off:off+4]"""
    import struct
    return struct.unpack("<f", bytes(b[off:off + 4]))[0]


def byte_of(v, k):
    """byte k (little-endian) of the non-negative integer v"""
    return (v >> (8 * k)) & 255


def f32_byte(x, k):
    """byte k (little-endian) of the IEEE binary32 encoding of x"""
    import struct
    return struct.pack("<f", x)[k]


def bloom_image(s, b, off):
    """b[off:] starts with the documented Bloom export of s: cells, then the footer
    uint64 estimated_elements, uint64 elements_added, float false_positive_rate"""
    n = len(s._bloom)
    return (all(b[off + i] == s._bloom[i] for i in range(0, n))
            and le_bytes(b, off + n, 8) == s._est_elements and le_bytes(b, off + n + 8, 8) == s._els_added
            and f32_at(b, off + n + 16) == f32(s._fpr)
            and b[off + n + 0] == byte_of(s._est_elements, 0)
            and b[off + n + 1] == byte_of(s._est_elements, 1)
            and b[off + n + 2] == byte_of(s._est_elements, 2)
            and b[off + n + 3] == byte_of(s._est_elements, 3)
            and b[off + n + 4] == byte_of(s._est_elements, 4)
            and b[off + n + 5] == byte_of(s._est_elements, 5)
            and b[off + n + 6] == byte_of(s._est_elements, 6)
            and b[off + n + 7] == byte_of(s._est_elements, 7)
            and b[off + n + 8] == byte_of(s._els_added, 0)
            and b[off + n + 9] == byte_of(s._els_added, 1)
            and b[off + n + 10] == byte_of(s._els_added, 2)
            and b[off + n + 11] == byte_of(s._els_added, 3)
            and b[off + n + 12] == byte_of(s._els_added, 4)
            and b[off + n + 13] == byte_of(s._els_added, 5)
            and b[off + n + 14] == byte_of(s._els_added, 6)
            and b[off + n + 15] == byte_of(s._els_added, 7)
            and b[off + n + 16] == f32_byte(s._fpr, 0)
            and b[off + n + 17] == f32_byte(s._fpr, 1)
            and b[off + n + 18] == f32_byte(s._fpr, 2)
            and b[off + n + 19] == f32_byte(s._fpr, 3))


def hex_byte(h, i):
    """the byte written by the hex digits 2i and 2i+1 of the hex text h"""
    return int(h[2 * i:2 * i + 2], 16)


def unhex(h):
    """the bytes a hex text stands for"""
    return bytes.fromhex(h)


def f32_at_be(b, off):
    """the IEEE binary32 value stored big-endian at b[off:off+4]"""
    import struct
    return struct.unpack(">f", bytes(b[off:off + 4]))[0]


def cells32(b):
    """the little-endian uint32 cells of a bytes value"""
    import struct
    return [struct.unpack_from("<I", bytes(b), 4 * c)[0] for c in range(len(b) // 4)]


def nzlead(a, n):
    """number of leading non-zero entries of a[0:n]"""
    k = 0
    while k < n and a[k] != 0:
        k += 1
    return k


def ck_cells(s, b, off):
    """b[off:] starts with capacity buckets of bucket_size little-endian uint32 slots (the stored fingerprints first, the
    rest 0)"""
    n = s._cuckoo_capacity
    w = s._bucket_size
    return all(all(le_bytes(b, off + 4 * (smul(q, w) + j), 4) == (s._buckets[q][j] if j < len(s._buckets[q]) else 0)
                   for j in range(0, w)) for q in range(0, n))


def ck_foot(s, b, off):
    """after the buckets: uint32 bucket_size, uint32 max_swaps"""
    foot = off + 4 * smul(s._cuckoo_capacity, s._bucket_size)
    return le_bytes(b, foot, 4) == s._bucket_size and le_bytes(b, foot + 4, 4) == s._CuckooFilter__max_cuckoo_swaps


def ck_image(s, b, off):
    """b[off:] starts with the documented export of the cuckoo filter s: the buckets, then the footer"""
    return ck_cells(s, b, off) and ck_foot(s, b, off)


def u64_at(b, off, v):
    """the 8 bytes b[off:off+8] are the little-endian base-256 digits of v"""
    return (le_bytes(b, off, 8) == v
            and b[off + 0] == byte_of(v, 0) and b[off + 1] == byte_of(v, 1) and b[off + 2] == byte_of(v, 2)
            and b[off + 3] == byte_of(v, 3) and b[off + 4] == byte_of(v, 4) and b[off + 5] == byte_of(v, 5)
            and b[off + 6] == byte_of(v, 6) and b[off + 7] == byte_of(v, 7))


def smul(q, w):
    """q * w for q >= 0 (symbolically: repeated addition, which keeps the product of two unknowns out of the solver's
    arithmetic - theory `smul` in pyvc/theories.py)"""
    return q * w if q > 0 else 0


def eb_cells(s):
    """number of bytes of the bit array of every sub-filter of the expanding filter s"""
    return cdiv(bloom_m(eb_est(s), f32(eb_fpr(s))), 8)


def exp_image(s, b, off):
    """b[off:] starts with the documented export of the expanding / rotating filter s: for every sub-filter its
    uint64 element count followed by its bit array, then the footer uint64 number of sub-filters, uint64
    estimated_elements, uint64 elements_added, float false_positive_rate"""
    n = len(s._blooms)
    c = eb_cells(s)
    foot = off + smul(n, c + 8)
    return (all(u64_at(b, off + smul(q, c + 8), s._blooms[q]._els_added)
                and all(b[off + smul(q, c + 8) + 8 + j] == s._blooms[q]._bloom[j] for j in range(0, c))
                for q in range(0, n))
            and u64_at(b, foot, n) and u64_at(b, foot + 8, eb_est(s)) and u64_at(b, foot + 16, s._added_elements)
            and f32_at(b, foot + 24) == f32(eb_fpr(s))
            and b[foot + 24] == f32_byte(eb_fpr(s), 0) and b[foot + 25] == f32_byte(eb_fpr(s), 1)
            and b[foot + 26] == f32_byte(eb_fpr(s), 2) and b[foot + 27] == f32_byte(eb_fpr(s), 3))


def cbloom_image(s, b, off):
    """b[off:] starts with the documented export of the counting Bloom filter s: one little-endian uint32 per cell, then
    the footer uint64 estimated_elements, uint64 elements_added, float false_positive_rate"""
    n = len(s._bloom)
    foot = off + 4 * n
    return (all(le_bytes(b, off + 4 * c, 4) == s._bloom[c] for c in range(0, n))
            and u64_at(b, foot, s._est_elements) and u64_at(b, foot + 8, s._els_added)
            and f32_at(b, foot + 16) == f32(s._fpr)
            and b[foot + 16] == f32_byte(s._fpr, 0) and b[foot + 17] == f32_byte(s._fpr, 1)
            and b[foot + 18] == f32_byte(s._fpr, 2) and b[foot + 19] == f32_byte(s._fpr, 3))


def i32_at(b, off):
    import struct
    return struct.unpack("<i", bytes(b[off:off + 4]))[0]


def i64_at(b, off):
    import struct
    return struct.unpack("<q", bytes(b[off:off + 8]))[0]


def default_mode(cls):
    """the query method a count-min class answers with by default"""
    name = cls.__name__ if isinstance(cls, type) else type(cls).__name__
    probe = cls if not isinstance(cls, type) else None
    return {"CountMeanSketch": "mean", "CountMeanMinSketch": "mean-min"}.get(name, "min")


def cms_image(s, b, off):
    """b[off:] starts with the documented count-min export of s: width*depth int32 cells, then the footer
    uint32 width, uint32 depth, int64 elements_added"""
    n = cw(s) * cd(s)
    return (all(i32_at(b, off + 4 * c) == s._bins[c] for c in range(0, n))
            and le_bytes(b, off + 4 * n, 4) == cw(s) and le_bytes(b, off + 4 * n + 4, 4) == cd(s)
            and i64_at(b, off + 4 * n + 8) == ctotal(s))


def mode_of(s):
    """the query mode a sketch object answers with: 'min', 'mean' or 'mean-min'"""
    return s.query_type


def file_bytes(path):
    """content of the file at a (resolved) path"""
    return open(path, "rb").read()


def file_exists(path):
    import os
    return os.path.exists(path)


def disk_footer_ok(b):
    """b is a well-formed Bloom export: footer with a usable geometry, exactly bloom_length cells before it"""
    n = len(b)
    return (n >= 20 and le_bytes(b, n - 20, 8) >= 1 and 0 < f32_at(b, n - 4) < 1
            and bloom_k(le_bytes(b, n - 20, 8), bloom_m(le_bytes(b, n - 20, 8), f32_at(b, n - 4))) >= 1
            and bloom_m(le_bytes(b, n - 20, 8), f32_at(b, n - 4)) < 2**53
            and n == 20 + cdiv(bloom_m(le_bytes(b, n - 20, 8), f32_at(b, n - 4)), 8))


def resolve(path):
    import pathlib
    return pathlib.Path(path).expanduser().resolve()


def file_ok(s, b0, done):
    """C11 every-point invariant of the mapped file of an on-disk filter: same size, the footer's
    estimated_elements and rate never change, cells only gain bits, the recorded count is either the count the
    file held when the operation started (`done`) or the filter's current count"""
    n = s._bloom_length
    return (len(s._bloom) == len(b0)
            and all(s._bloom[i] == b0[i] for i in range(n, n + 8))
            and all(s._bloom[i] == b0[i] for i in range(n + 16, n + 20))
            and all(implies(bit(b0, k), bit(s._bloom, k)) for k in range(0, 8 * n))
            and (le_bytes(s._bloom, n + 8, 8) == done or le_bytes(s._bloom, n + 8, 8) == s._els_added))


def disk_consistent(s):
    """the mapped file of an on-disk filter carries the filter's own parameters in its footer"""
    n = s._bloom_length
    return (inv_bloom_disk(s) and geo_bloom(s) and s._num_bits < 2**53
            and le_bytes(s._bloom, n, 8) == s._est_elements and f32_at(s._bloom, n + 16) == s._fpr)


# ---- C17 ghost invariants -------------------------------------------------------------------------------------------------
def g_threshold(s, last, seen):
    """StreamThreshold: the table holds exactly the seen keys whose most recent returned estimate meets the
    threshold, with that estimate (last: key -> most recent estimate, seen: key -> 1)"""
    t = s._StreamThreshold__meets_threshold
    return all(((k in t) == ((k in seen) and last[k] >= s._StreamThreshold__threshold)) and implies(k in t, t[k] == last[k])
               for k in allkeys(t, last, seen))


def g_hitters(s, last, seen, nseen):
    """HeavyHitters: tracks min(number_heavy_hitters, distinct keys seen) keys, each with its most recent estimate;
    no untracked seen key's most recent estimate exceeds a tracked one; the cached minimum is a lower bound"""
    t = s._HeavyHitters__top_x
    n = s._HeavyHitters__num_hitters
    return (s._HeavyHitters__top_x_size == len(t) and len(t) == (n if nseen >= n else nseen) and nseen == len(seen)
            and s._HeavyHitters__smallest >= 0 and implies(len(t) < n, s._HeavyHitters__smallest == 0)
            and all(s._bins[x] >= 0 for x in range(0, cw(s) * cd(s)))
            and all(implies(k in seen, k in last) for k in allkeys(seen, last))
            and all(implies(k in t, (k in seen) and t[k] == last[k] and s._HeavyHitters__smallest <= t[k]) for k in allkeys(t, seen))
            and all(implies((k in seen) and not (k in t), len(t) >= n and
                            all(implies(k2 in t, last[k] <= t[k2]) for k2 in allkeys(t))) for k in allkeys(seen, t)))
