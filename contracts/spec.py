from hashlib import md5, sha256  # noqa: E402,F401
from struct import unpack  # noqa: E402,F401

"""Specification functions.  ONE text, two uses: the engine translates these definitions to z3
(inlining them at each use), and the native replay / bounded layers execute them in CPython."""


def recursive(f):
    return f


def uninterpreted(f):
    return f


def implies(a, b):
    return (not a) or b


def iff(a, b):
    return bool(a) == bool(b)


def cdiv(a, b):
    """ceiling division for b > 0"""
    return -((-a) // b)


def bit(arr, k):
    """bit k of a byte array: bit (k mod 8) of byte (k div 8) -- the documented C layout"""
    return (arr[k // 8] & (1 << (k % 8))) != 0


# ---- Bitarray -------------------------------------------------------------------------------
def inv_bitarray(s):
    return s._size >= 1 and s._size_bytes == cdiv(s._size, 8) and len(s._bitarray) == s._size_bytes


# ---- hashes ---------------------------------------------------------------------------------
FNV64_OFFSET = 14695981039346656037      # published FNV-1a 64-bit offset basis
FNV64_PRIME = 1099511628211              # published FNV-1a 64-bit prime
FNV32_OFFSET = 2166136261                # 0x811C9DC5
FNV32_PRIME = 16777619                   # 0x01000193


def key_units(key):
    """the integers FNV-1a consumes: code points of a text key, bytes of a bytes key"""
    return list(map(ord, key)) if isinstance(key, str) else list(key)


@recursive
def fnv64(data, n, seed):
    """published 64-bit FNV-1a over data[0:n], offset basis advanced by 31 per seed"""
    return ((14695981039346656037 + 31 * seed) % 18446744073709551616) if n <= 0 else \
        (((fnv64(data, n - 1, seed) ^ data[n - 1]) * 1099511628211) % 18446744073709551616)


@recursive
def fnv32(data, n, seed):
    """published 32-bit FNV-1a over data[0:n], offset basis advanced by 31 per seed"""
    return ((2166136261 + 31 * seed) % 4294967296) if n <= 0 else \
        (((fnv32(data, n - 1, seed) ^ data[n - 1]) * 16777619) % 4294967296)


def start_bytes(key):
    """what the bytes-decorator feeds to the first digest: the key itself, text keys as UTF-8"""
    return key if not isinstance(key, str) else key.encode("utf-8")


def le64(blob):
    """first 8 bytes as an unsigned 64-bit integer (native byte order of the x86-64 host: little endian)"""
    return unpack("Q", blob[:8])[0]


@recursive
def chain_blob(func, k0, i) -> bytes:
    """digest chain of hash_with_depth_bytes: t_0 = func(k0, 0), t_i = func(t_(i-1), i)"""
    return func(k0, 0) if i <= 0 else func(chain_blob(func, k0, i - 1), i)


@recursive
def chain_int(func, key, i):
    """chain of hash_with_depth_int: h_0 = func(key, 0), h_i = func(hex(h_(i-1)), i)"""
    return func(key, 0) if i <= 0 else func(f"{chain_int(func, key, i - 1):x}", i)


def md5_digest(key):
    return md5(key).digest()


def sha256_digest(key):
    return sha256(key).digest()
