"""Sidecar contracts for /repo (no repository file is edited).  Importing this package fills
pyvc.api.CONTRACTS / CLASSES / LEMMAS."""
from . import bitarray, hashes, bloom, ondisk, countingbloom, cms, expanding, cuckoo, ccuckoo, serial  # noqa: F401

# accessors that may be inlined (checked against their body, listed in evidence)
INLINE = {"probables.utilities.is_valid_file", "probables.utilities.is_hex_string", "probables.utilities.resolve_path"}

# per-property level / assumptions / explanation used in evidence
LEVELS = {}

_PROOF_NOTE = ("trusted: the VC generator pyvc (built for this task), the enumerated library contracts and ghost theories "
               "listed in the evidence file (each validated natively or over bit-vectors where stated), the encapsulation "
               "assumption, hash strategies are pure; machine arithmetic on floats treated as real arithmetic wherever "
               "floats occur")
_T = "contract-based deductive verification (VCs generated from the real AST, discharged by z3)"
_TB = _T + " + labelled bounded native stand-in"


def _c(text, note="", cat="proof", tech=_T, ref=None):
    return {"category": cat, "technique": tech, "text": text, "note": _PROOF_NOTE + ("; " + note if note else ""),
            **({"design_ref": ref} if ref else {})}


# properties claimed in MANIFEST.json
CLAIMED = {
    "C01": _c("add_alt/check_alt/add/check/union of the in-memory and on-disk filter and add_alt/check_alt/growth of the expanding "
              "filter are verified against whole-view postconditions (exactly the positions hash mod number_bits are or-ed in, "
              "nothing else changes); lemmas: add establishes, every other add / union / growth / close+reopen / "
              "bytes round trip preserves 'all positions of the key are set', which implies check",
              "every channel of the plain filter (bytes, file object, path, filepath=, hex) and the expanding filter's export / "
              "loader / bytes round trip are under contract; the bounded history stand-in cross-checks them natively", tech=_TB),
    "C02": _c("CountMinSketch add_alt/remove_alt/check_alt and the key-level wrappers are verified for all widths, depths and hash "
              "lists (one counter per row, all others untouched, saturating arithmetic, returned value = following check); lemmas "
              "give the lower bound under additions and own removals and the upper bound by the total",
              "the lower bound under removals of OTHER colliding keys needs the multiset argument: only the bounded history "
              "stand-in covers it", tech=_TB),
    "C03": _c("CuckooFilter: _insert_fingerprint (eviction loop with havoc'd random choices, undo of a failed chain proved exact), "
              "_setup_expand/_expand_logic/expand/add/remove/check verified over the occurrence-count view of the table: no "
              "fingerprint is lost, a CuckooFilterFullError leaves the table unchanged",
              "CountingCuckooFilter is outside the verifier's data model: native contracts in a small scope (bounded)", tech=_TB),
    "C04": _c("bounded: all layouts reachable within 8-12 operations for quotient 3 (4) over small remainder alphabets plus deep "
              "random walks, compared with a mathematical set after every step, every call under a time budget",
              "no deductive claim for the slot-shifting loops (9 while loops over a cyclic table); one known finding",
              cat="other", tech="bounded native exploration (stand-in; the family's reach ends at the while loops)"),
    "C05": _c("Bloom and count-min export/__bytes__/frombytes/_load/_parse_* verified over a byte-stream model (explicit base-256 "
              "digits); lemmas: load(export(x)) has the same geometry, counters and cells, and re-exports the same bytes; "
              "on-disk reopen restores cells and count",
              "expanding/rotating format: export (loop over the sub-filters, stream model), __bytes__, _parse_footer, "
              "_parse_blooms, __load on a mapped file, frombytes of both classes and the bytes round-trip lemma are discharged; "
              "counting Bloom format (uint32 cells): export, __bytes__, _parse_bloom_array, _load, frombytes and the bytes "
              "round-trip lemma are discharged; path channel (open(path,'wb') / MMap(path) over the modelled file system) of export and of the "
              "loaders of Bloom, counting Bloom, count-min and expanding filters discharged; the constructors' filepath= argument and the hex channel (export_hex, _load_hex, "
              "hex_string=, round-trip lemmas; hex text = sequence of digit values) of Bloom and counting Bloom discharged; "
              "cuckoo export layout (export, __bytes__, path, _parse_footer, _parse_bucket) discharged; cuckoo loaders and the "
              "counting cuckoo format: bounded history stand-in; one known finding (fingerprint 0)", tech=_TB),
    "C06": _c("the export contracts ARE the documented layout (cells, then footer fields at fixed offsets, little endian, bit i in "
              "byte i div 8); the default hash is proved to be the published FNV-1a recurrence seeded per index; positions are "
              "hash mod size by the add contracts",
              "an independent reader and writer written from the documentation are compared with the library on random small "
              "filters (bounded); export_c_header parsed back (bounded)", tech=_TB),
    "C07": _c("proved in the real-arithmetic model: the Bloom geometry is the stated function of (n, float32(p)) with >= 1 hash, "
              "float32 narrowing is idempotent so a reloaded filter re-derives the same geometry, sketch width/depth formulas and "
              "2/width <= error_rate; the 7% clause and all floating-point behaviour: parameter sweep",
              "float rounding is outside the solver's reach; one known finding (1 ulp)", cat="other", tech=_TB),
    "C08": _c("CountingBloomFilter add_alt/remove_alt/check_alt verified with multiplicity (coinciding positions count once each), "
              "lemmas: remove undoes add exactly, additions never lower a count, removing an absent key changes nothing",
              "counting cuckoo filter: native contracts in a small scope (bounded)", tech=_TB),
    "C09": _c("heap model of the list of sub-filters; add_alt/__check_for_growth/__add_bloom_filter/push verified; ghost lemma: "
              "every sub-filter but the newest is exactly full, so expansions = max(0, ceil(I/est) - 1)"),
    "C10": _c("rotation (4 branches), push, pop verified; the queue stays within 1..max_queue_size and every sub-filter within "
              "capacity; sliding-window ghost lemma: a key inserted when absent is reported until (max_queue_size-1)*est further "
              "effective insertions"),
    "C11": _c("file/mmap model: an every-point invariant (file_ok) is proved after EVERY statement of add_alt, the base add loop, "
              "__update, close and export; close + reopen lemmas restore cells, geometry and count; bounded stand-in ondisk_trace reads the "
              "real backing file at every executed library line of add / clear and after export, close, reopen",
              "assumes an flushed 8-byte write is atomic and that a killed process keeps page-cache contents; power loss is out of scope"),
    "C12": _c("union (Bloom, counting Bloom) and join (count-min) verified cell-wise with aliasing and on-disk operands; lemmas: "
              "the result equals the structure fed both streams (homomorphism step)"),
    "C13": _c("intersection and Jaccard verified (byte-wise and/or lemmas, popcount), None exactly for incompatible operands, "
              "TypeError for foreign types, operands never modified (semantic frames + syntactic may-write closure)"),
    "C14": _c("every mutator's contract carries the counter clause of its structure; statistics formulas are postconditions over "
              "uninterpreted log/exp/pow", "quotient filter and counting cuckoo counters: bounded stand-ins", tech=_TB),
    "C15": _c("the cuckoo table invariant (bucket sizes, placement, no duplicate, counter) is a postcondition of every operation of "
              "CuckooFilter; capacity is written only by the expansion code (syntactic closure)",
              "counting cuckoo and loaded tables: bounded", tech=_TB),
    "C16": _c("saturating arithmetic is in the postconditions of add/remove/union/intersection/join for arbitrary amounts; typed-array "
              "stores generate range obligations, so an OverflowError is a failed obligation"),
    "C17": _c("dict model with size bookkeeping; function contracts describe the table update per branch; ghost lemmas (case split) "
              "prove the table invariants of HeavyHitters and StreamThreshold over arbitrary histories",
              "the heavy-hitters lemma assumes 'estimates only grow under additions' (proved separately for the sketch as P.C02)"),
    "C18": _c("fnv_1a, fnv_1a_32, default_fnv_1a, both decorator closures and the md5/sha256 bodies are verified against the published "
              "FNV-1a recurrence / digest-chain specifications by loop invariants for every key, depth and seed; determinism, "
              "prefix stability and text==UTF-8 are lemmas over those contracts",
              "user functions handed to the decorators are assumed pure (bytes functions: >= 8 bytes); md5/sha256 uninterpreted"),
    "C19": _c("modifies-nothing frames on every query contract, 270+ syntactic may-write obligations over every read-only method and "
              "property of every class, clear() == fresh lemmas"),
    "C20": _c("every public Bitarray operation is verified against a whole-view postcondition (all 8*size_bytes bit positions, so "
              "padding bits too), index/value errors are raises-clauses with state-unchanged frames",
              "sizes below 2**53 (float division by 8 exact); val is an int as annotated; as_string is outside the proved part"),
}
NOT_APPLICABLE = {}

LEVELS = {
    "C04": {"level": "other", "explanation": "bounded stand-in only: exhaustive breadth-first exploration of reachable quotient-filter "
            "layouts in a small scope plus deep random walks, against a mathematical set; the slot-shifting while loops are "
            "outside the verifier's reach (no claim of proof)"},
    "C07": {"level": "other", "explanation": "real-arithmetic-model obligations are discharged deductively; the floating-point clauses "
            "(7% allowance, exact boundaries) are decided by a labelled parameter sweep"},
}
