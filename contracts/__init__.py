"""Sidecar contracts for /repo (no repository file is edited).  Importing this package fills
pyvc.api.CONTRACTS / CLASSES / LEMMAS."""
from . import bitarray, hashes, bloom, ondisk, countingbloom, cms, expanding, cuckoo, ccuckoo, serial  # noqa: F401

# accessors that may be inlined (checked against their body, listed in evidence)
INLINE = {"probables.utilities.is_valid_file", "probables.utilities.is_hex_string", "probables.utilities.resolve_path"}

# per-property level / assumptions / explanation used in evidence
LEVELS = {}

_PROOF_NOTE = ("trusted: the VC generator pyvc (built for this task), the enumerated library contracts and ghost axioms "
               "listed in the evidence file, the encapsulation assumption; machine arithmetic on floats treated as real "
               "arithmetic wherever floats occur")

# properties claimed in MANIFEST.json
CLAIMED = {
    "C18": {"category": "proof", "technique": "contract-based deductive verification (VCs from the real AST, z3)",
            "text": "fnv_1a, fnv_1a_32, default_fnv_1a, both decorator closures and the md5/sha256 bodies are verified against "
                    "the published FNV-1a recurrence / digest-chain specifications by loop invariants for every key, depth and "
                    "seed; determinism, prefix stability and text==UTF-8 are lemmas over those contracts",
            "note": _PROOF_NOTE + "; user functions handed to the decorators are assumed pure (bytes functions: >= 8 bytes); "
                    "md5/sha256 are uninterpreted"},
    "C20": {"category": "proof", "technique": "contract-based deductive verification (VCs from the real AST, z3)",
            "text": "every public Bitarray operation is verified against a whole-view postcondition (all 8*size_bytes bit "
                    "positions, so padding bits too), index/value errors are raises-clauses with state-unchanged frames",
            "note": _PROOF_NOTE + "; sizes below 2**53 (float division by 8 exact); val is an int as annotated; "
                    "as_string is outside the proved part (string formatting)"},
}
NOT_APPLICABLE = {}
