"""Small-scope generators for the native layer (replay / refutation / bounded stand-ins).
Each generator yields JSON-able cases  {"self": recipe|None, "args": {...}, "rand": [...]?}."""
from __future__ import annotations

import itertools

GENS = {}


def gen(*keys):
    def deco(f):
        for k in keys:
            GENS[k] = f
        return f
    return deco


# ---- Bitarray ----------------------------------------------------------------------------------
def bitarray_states(tier, rnd):
    sizes = list(range(1, 20)) if tier == "quick" else list(range(1, 42))
    for size in sizes:
        nbytes = -(-size // 8)
        pats = [[0] * nbytes, [255] * nbytes, [rnd.randrange(256) for _ in range(nbytes)],
                [0b10101010] * nbytes, [0b01010101] * nbytes]
        for p in pats:
            yield size, {"__recipe__": "probables.utilities.Bitarray", "args": {"size": size}, "set": {"_bitarray": p}}


@gen("Bitarray.check_bit", "Bitarray.is_bit_set", "Bitarray.set_bit", "Bitarray.clear_bit")
def _g_bit_idx(tier, rnd):
    for size, rec in bitarray_states(tier, rnd):
        for idx in range(-2, size + 3):
            yield {"self": rec, "args": {"idx": idx}}


@gen("Bitarray.__getitem__")
def _g_getitem(tier, rnd):
    for size, rec in bitarray_states(tier, rnd):
        for idx in range(-2, size + 3):
            yield {"self": rec, "args": {"key": idx}}


@gen("Bitarray.__setitem__")
def _g_setitem(tier, rnd):
    for size, rec in bitarray_states(tier, rnd):
        for idx in range(-2, size + 3):
            for val in (-1, 0, 1, 2):
                yield {"self": rec, "args": {"idx": idx, "val": val}}


@gen("Bitarray.clear", "Bitarray.num_bits_set", "Bitarray.as_string")
def _g_noargs(tier, rnd):
    for size, rec in bitarray_states(tier, rnd):
        yield {"self": rec, "args": {}}


@gen("Bitarray.__init__")
def _g_init(tier, rnd):
    for size in range(-2, 70):
        yield {"self": {"__recipe__": "probables.utilities.Bitarray", "args": {"size": 8}}, "args": {"size": size}}


# ---- hashes --------------------------------------------------------------------------------------
def small_keys(tier, rnd):
    yield ""
    yield b""
    alphabet = [0, 1, 0x41, 0x7F, 0x80, 0xFF]
    for a in range(256):
        yield bytes([a])
        if a < 128:
            yield chr(a)
    full = range(256) if tier == "thorough" else alphabet
    for a in full:
        for b in full:
            yield bytes([a, b])
    for s in ("test", "this is a test", "é", "中文", "aéb", "\U0001F600"):
        yield s
        yield s.encode("utf-8")
    for _ in range(200 if tier == "quick" else 2000):
        n = rnd.randrange(3, 40)
        yield bytes(rnd.randrange(256) for _ in range(n))
        yield "".join(chr(rnd.randrange(32, 127)) for _ in range(n))


@gen("probables.hashes.fnv_1a", "probables.hashes.fnv_1a_32")
def _g_fnv(tier, rnd):
    seeds = [0, 1, 2, 8, 9, 10, 11, 100, 2**32, 2**64 - 1, 2**64, 594968347820356943]
    for k in small_keys(tier, rnd):
        for seed in (seeds if len(k) <= 1 else seeds[:6]):
            yield {"self": None, "args": {"key": k if isinstance(k, str) else {"__bytes__": k.hex()}, "seed": seed}}


@gen("probables.hashes.default_fnv_1a")
def _g_dfnv(tier, rnd):
    for k in small_keys(tier, rnd):
        if len(k) > 2 and rnd.random() < 0.8:
            continue
        for depth in (0, 1, 2, 3, 9, 10, 11, 12, 13):
            yield {"self": None, "args": {"key": k if isinstance(k, str) else {"__bytes__": k.hex()}, "depth": depth}}


def _k(k):
    return k if isinstance(k, str) else {"__bytes__": k.hex()}


@gen("probables.hashes.hash_with_depth_bytes.hashing_func")
def _g_dec_bytes(tier, rnd):
    for k in small_keys(tier, rnd):
        if len(k) > 1 and rnd.random() < 0.9:
            continue
        for depth in (0, 1, 2, 3, 5):
            for f in ("bytes_md5", "bytes_sha"):
                yield {"self": None, "args": {"func": {"__func__": {"kind": f}}, "key": _k(k), "depth": depth}}


@gen("probables.hashes.hash_with_depth_int.hashing_func")
def _g_dec_int(tier, rnd):
    for k in small_keys(tier, rnd):
        if len(k) > 1 and rnd.random() < 0.9:
            continue
        for depth in (1, 2, 3, 5):
            yield {"self": None, "args": {"func": {"__func__": {"kind": "int_simple"}}, "key": _k(k), "depth": depth}}


# ---- Bloom family ----------------------------------------------------------------------------------
def _geom(cls, m, k, cells, added=0, extra=None):
    """recipe of a filter with a chosen geometry: built from parameters, then slots overridden"""
    counting = cls.endswith("CountingBloomFilter")
    rec = {"__recipe__": cls, "args": {"est_elements": 10, "false_positive_rate": 0.05},
           "set": {"_num_bits": m, "_number_hashes": k, "_bloom_length": m if counting else -(-m // 8),
                   "_bloom": cells, "_els_added": added}}
    if extra:
        rec["set"].update(extra)
    return rec


def hash_lists(m, k, rnd, n=6):
    """hash lists of length k whose positions cover coincidences, the last bit, wrap-around"""
    out = [[0] * k, [m - 1] * k, list(range(k)), [m - 1 + i * m for i in range(k)], [m, 2 * m - 1] * ((k + 1) // 2)]
    for _ in range(n):
        out.append([rnd.randrange(0, 4 * m) for _ in range(k)])
    return [h[:k] for h in out if len(h) >= k]


def cbloom_states(tier, rnd):
    MAX = 2**32 - 1
    for m in ([1, 2, 3, 5] if tier == "quick" else [1, 2, 3, 4, 5, 8, 9]):
        for k in (1, 2, 3):
            base = [[0] * m, [1] * m, [MAX] * m, [MAX - 1] * m, [rnd.choice([0, 1, 2, 5, MAX - 2, MAX - 1, MAX]) for _ in range(m)],
                    [rnd.randrange(0, 50) for _ in range(m)]]
            for cells in base:
                for added in (0, 7, 2**64 - 2, 2**64 - 1):
                    yield m, k, _geom("probables.blooms.countingbloom.CountingBloomFilter", m, k, cells, added)


@gen("CountingBloomFilter.add_alt")
def _g_cb_add(tier, rnd):
    for m, k, rec in cbloom_states(tier, rnd):
        for h in hash_lists(m, k, rnd, 3):
            for n in (1, 2, 5, 2**31 + 5, 2**32 - 1, 2**32, 2**64, 2**65):
                yield {"self": rec, "args": {"hashes": h, "num_els": n}}


@gen("CountingBloomFilter.check_alt")
def _g_cb_check(tier, rnd):
    for m, k, rec in cbloom_states(tier, rnd):
        for h in hash_lists(m, k, rnd, 3):
            yield {"self": rec, "args": {"hashes": h}}


@gen("CountingBloomFilter.remove_alt")
def _g_cb_remove(tier, rnd):
    for m, k, rec in cbloom_states(tier, rnd):
        for h in hash_lists(m, k, rnd, 3):
            for n in (1, 2, 5, 2**32, 2**64):
                yield {"self": rec, "args": {"hashes": h, "num_els": n}}


NATURAL_GEOMETRIES = [(1, 0.5), (2, 0.3), (3, 0.2), (10, 0.05)]     # (est, fpr) -> (m, k) = (2,1), (6,2), (11,3), (63,4)


def natural(cls, est, fpr, cells=None, added=0):
    rec = {"__recipe__": cls, "args": {"est_elements": est, "false_positive_rate": fpr}, "set": {"_els_added": added}}
    if cells is not None:
        rec["set"]["_bloom"] = cells
    return rec


def natural_m(est, fpr):
    import math
    import struct
    p = struct.unpack("f", struct.pack("f", fpr))[0]
    return math.ceil((-est * math.log(p)) / 0.4804530139182)


@gen("CountingBloomFilter.union", "CountingBloomFilter.intersection", "CountingBloomFilter.jaccard_index")
def _g_cb_setop(tier, rnd):
    MAX = 2**32 - 1
    cls = "probables.blooms.countingbloom.CountingBloomFilter"
    for est, fpr in NATURAL_GEOMETRIES[:3]:
        m = natural_m(est, fpr)
        pats = [[0] * m, [1] * m, [MAX] * m, [MAX - 1] * m, [2**31] * m,
                [rnd.choice([0, 1, 2, MAX - 1, MAX, 2**31]) for _ in range(m)],
                [rnd.randrange(0, 9) for _ in range(m)]]
        recs = [natural(cls, est, fpr, p, a) for p in pats for a in (0, 5)]
        for a in recs:
            for b in recs:
                yield {"self": a, "args": {"second": b}}
        yield {"self": recs[0], "args": {"second": "not a filter"}}
        yield {"self": recs[0], "args": {"second": natural(cls, est + 1, fpr)}}


# ---- plain Bloom filters ---------------------------------------------------------------------------
BF = "probables.blooms.bloom.BloomFilter"


def bloom_states(tier, rnd):
    ms = [1, 2, 7, 8, 9, 15, 16, 17] if tier == "quick" else list(range(1, 26))
    for m in ms:
        nb = -(-m // 8)
        for k in (1, 2, 3):
            pats = [[0] * nb, [255] * nb, [rnd.randrange(256) for _ in range(nb)], [0x55] * nb]
            for cells in pats:
                yield m, k, _geom(BF, m, k, cells, rnd.choice([0, 3, 99, 100]))


@gen("BloomFilter.add_alt", "BloomFilter.check_alt")
def _g_bf_hashes(tier, rnd):
    for m, k, rec in bloom_states(tier, rnd):
        for h in hash_lists(m, k, rnd, 4):
            yield {"self": rec, "args": {"hashes": h}}


@gen("BloomFilter.clear", "BloomFilter._cnt_number_bits_set", "BloomFilter.estimate_elements",
     "BloomFilter.current_false_positive_rate")
def _g_bf_noargs(tier, rnd):
    for m, k, rec in bloom_states(tier, rnd):
        yield {"self": rec, "args": {}}


@gen("BloomFilter._get_element")
def _g_bf_getel(tier, rnd):
    for m, k, rec in bloom_states(tier, rnd):
        for i in range(-(-m // 8)):
            yield {"self": rec, "args": {"idx": i}}


@gen("BloomFilter.add", "BloomFilter.check", "BloomFilter.__contains__")
def _g_bf_keys(tier, rnd):
    for m, k, rec in bloom_states(tier, rnd):
        for key in ("a", "test", b"a", "this is a test", "é"):
            yield {"self": rec, "args": {"key": key if isinstance(key, str) else {"__bytes__": key.hex()}}}


@gen("BloomFilter.union", "BloomFilter.intersection", "BloomFilter.jaccard_index")
def _g_bf_setop(tier, rnd):
    for est, fpr in NATURAL_GEOMETRIES:
        m = natural_m(est, fpr)
        nb = -(-m // 8)
        pats = [[0] * nb, [255] * nb, [rnd.randrange(256) for _ in range(nb)], [rnd.randrange(256) for _ in range(nb)]]
        recs = [natural(BF, est, fpr, p, a) for p in pats for a in (0, 5)]
        for a in recs:
            for b in recs:
                yield {"self": a, "args": {"second": b}}
        yield {"self": recs[0], "args": {"second": "not a filter"}}
        yield {"self": recs[0], "args": {"second": natural(BF, est + 1, fpr)}}
        yield {"self": recs[0], "args": {"second": natural("probables.blooms.countingbloom.CountingBloomFilter", est, fpr)}}


@gen("BloomFilter._get_optimized_params")
def _g_bf_sizing(tier, rnd):
    for n in (-1, 0, 1, 2, 3, 10, 100, 1000, 10**6):
        for p in (-0.1, 0.001, 0.05, 0.3, 0.5, 0.9, 0.99, 0.999999999, 1.0, 1.5):
            yield {"self": None, "args": {"cls": None, "estimated_elements": n, "false_positive_rate": p}}


@gen("CountingBloomFilter.add", "CountingBloomFilter.remove")
def _g_cb_keys(tier, rnd):
    for m, k, rec in cbloom_states(tier, rnd):
        for key in ("a", "test", b"a"):
            args = {"key": key if isinstance(key, str) else {"__bytes__": key.hex()}}
            yield {"self": rec, "args": dict(args, num_els=3)}


@gen("CountingBloomFilter.check")
def _g_cb_keycheck(tier, rnd):
    for m, k, rec in cbloom_states(tier, rnd):
        for key in ("a", "test", b"a"):
            yield {"self": rec, "args": {"key": key if isinstance(key, str) else {"__bytes__": key.hex()}}}


@gen("CountingBloomFilter._cnt_number_bits_set", "CountingBloomFilter.estimate_elements")
def _g_cb_noargs(tier, rnd):
    for m, k, rec in cbloom_states(tier, rnd):
        yield {"self": rec, "args": {}}


# ---- count-min family --------------------------------------------------------------------------------------
CMS = "probables.countminsketch.countminsketch."


def cms_states(tier, rnd, cls="CountMinSketch", extra_args=None):
    MAX, MIN = 2**31 - 1, -2**31
    for w in (1, 2, 3):
        for d in (1, 2, 3):
            pats = [[0] * (w * d), [MAX] * (w * d), [MIN] * (w * d), [rnd.randrange(0, 9) for _ in range(w * d)],
                    [rnd.choice([0, 1, 5, MAX - 1, MAX, MIN, MIN + 1]) for _ in range(w * d)]]
            for cells in pats:
                for tot in (0, 7, 2**63 - 2, -2**63 + 1):
                    args = {"width": w, "depth": d}
                    args.update(extra_args or {})
                    yield w, d, {"__recipe__": CMS + cls, "args": args,
                                 "set": {"_bins": cells, "_CountMinSketch__elements_added": tot}}


def cms_hashes(w, d, rnd):
    out = [[0] * d, [w - 1] * d, list(range(d)), [rnd.randrange(0, 5 * w) for _ in range(d)]]
    return out


@gen("CountMinSketch.add_alt", "CountMinSketch.remove_alt")
def _g_cms_addrem(tier, rnd):
    for w, d, rec in cms_states(tier, rnd):
        for h in cms_hashes(w, d, rnd):
            for n in (1, 2, 2**31, 2**32 + 5, 2**64, 2**70):
                yield {"self": rec, "args": {"hashes": h, "num_els": n}}


@gen("CountMinSketch.check_alt")
def _g_cms_check(tier, rnd):
    for w, d, rec in cms_states(tier, rnd):
        for h in cms_hashes(w, d, rnd):
            yield {"self": rec, "args": {"hashes": h}}


@gen("CountMinSketch.add", "CountMinSketch.remove")
def _g_cms_keys(tier, rnd):
    for w, d, rec in cms_states(tier, rnd):
        for key in ("a", "test", "b"):
            for n in (1, 3, 2**33):
                yield {"self": rec, "args": {"key": key, "num_els": n}}


@gen("CountMinSketch.check")
def _g_cms_keycheck(tier, rnd):
    for w, d, rec in cms_states(tier, rnd):
        for key in ("a", "test", "b"):
            yield {"self": rec, "args": {"key": key}}


@gen("CountMinSketch.clear")
def _g_cms_clear(tier, rnd):
    for w, d, rec in cms_states(tier, rnd):
        yield {"self": rec, "args": {}}


@gen("CountMinSketch.join")
def _g_cms_join(tier, rnd):
    states = list(cms_states(tier, rnd))
    for w, d, a in states[::3]:
        for w2, d2, b in states[::7]:
            yield {"self": a, "args": {"second": b}}
    yield {"self": states[0][2], "args": {"second": "nope"}}


def _table_hash(table):
    return {"__func__": {"kind": "table", "table": [[k, v] for k, v in table.items()], "default": [0]}}


@gen("StreamThreshold.add_alt", "StreamThreshold.remove_alt")
def _g_st(tier, rnd):
    for w, d, rec in cms_states(tier, rnd, "StreamThreshold", {"threshold": 3}):
        for table in ({}, {"b": 6}, {"a": 5, "b": 6}, {"b": 2}):
            r = json_copy(rec)
            r["set"]["_StreamThreshold__meets_threshold"] = {"__dict__": [[k, v] for k, v in table.items()]}
            for h in cms_hashes(w, d, rnd)[:2]:
                for key in ("a", "b"):
                    for n in (1, 5):
                        yield {"self": r, "args": {"key": key, "hashes": h, "num_els": n}}


def json_copy(x):
    import json
    return json.loads(json.dumps(x))


@gen("HeavyHitters.clear")
def _g_hh_clear(tier, rnd):
    for case in _g_hh(tier, rnd):
        yield {"self": case["self"], "args": {}}


@gen("StreamThreshold.clear")
def _g_st_clear(tier, rnd):
    for case in _g_st(tier, rnd):
        yield {"self": case["self"], "args": {}}


@gen("HeavyHitters.add_alt")
def _g_hh(tier, rnd):
    for nh in (1, 2, 3):
        for w, d, rec in cms_states(tier, rnd, "HeavyHitters", {"num_hitters": nh}):
            if rec["set"]["_bins"][0] < 0:
                continue
            for table in ({}, {"b": 6}, {"a": 5, "b": 6}, {"b": 2, "c": 2, "d": 9}):
                for sm in (0, min(table.values()) if table else 0):
                    r = json_copy(rec)
                    r["set"]["_HeavyHitters__top_x"] = {"__dict__": [[k, v] for k, v in table.items()]}
                    r["set"]["_HeavyHitters__top_x_size"] = len(table)
                    r["set"]["_HeavyHitters__smallest"] = sm
                    for h in cms_hashes(w, d, rnd)[:2]:
                        for key in ("a", "z"):
                            for n in (1, 7):
                                yield {"self": r, "args": {"key": key, "hashes": h, "num_els": n}}


# ---- expanding / rotating ------------------------------------------------------------------------------------
def _exp_recipes(cls, tier, rnd, extra=None):
    for est, fpr in NATURAL_GEOMETRIES[:3]:
        m = natural_m(est, fpr)
        import math
        k = int(round(0.6931471805599453 * m / est))
        for nops in (0, 1, 2, 3, 5, 8):
            ops = []
            for _ in range(nops):
                r = rnd.random()
                if r < 0.75:
                    ops.append(["add_alt", [rnd.randrange(0, 3 * m) for _ in range(k)], rnd.random() < 0.3])
                elif r < 0.9:
                    ops.append(["push"])
                else:
                    ops.append(["add_alt", [0] * k, True])
            args = {"est_elements": est, "false_positive_rate": fpr}
            args.update(extra or {})
            yield m, k, {"__recipe__": "probables.blooms.expandingbloom." + cls, "args": args, "ops": ops}


@gen("ExpandingBloomFilter.add_alt")
def _g_eb_add(tier, rnd):
    for m, k, rec in _exp_recipes("ExpandingBloomFilter", tier, rnd):
        for h in hash_lists(m, k, rnd, 3):
            for force in (False, True):
                yield {"self": rec, "args": {"hashes": h, "force": force}}


@gen("ExpandingBloomFilter.check_alt")
def _g_eb_check(tier, rnd):
    for cls in ("ExpandingBloomFilter", "RotatingBloomFilter"):
        for m, k, rec in _exp_recipes(cls, tier, rnd, {"max_queue_size": 2} if cls.startswith("Rot") else None):
            for h in hash_lists(m, k, rnd, 3):
                yield {"self": rec, "args": {"hashes": h}}


@gen("ExpandingBloomFilter.push", "ExpandingBloomFilter.__check_for_growth", "ExpandingBloomFilter.__add_bloom_filter")
def _g_eb_noargs(tier, rnd):
    for m, k, rec in _exp_recipes("ExpandingBloomFilter", tier, rnd):
        yield {"self": rec, "args": {}}


@gen("RotatingBloomFilter.add_alt")
def _g_rb_add(tier, rnd):
    for q in (1, 2, 3):
        for m, k, rec in _exp_recipes("RotatingBloomFilter", tier, rnd, {"max_queue_size": q}):
            for h in hash_lists(m, k, rnd, 2):
                for force in (False, True):
                    yield {"self": rec, "args": {"hashes": h, "force": force}}


@gen("RotatingBloomFilter.push", "RotatingBloomFilter.pop", "RotatingBloomFilter.__add_bloom_filter")
def _g_rb_noargs(tier, rnd):
    for q in (1, 2, 3):
        for m, k, rec in _exp_recipes("RotatingBloomFilter", tier, rnd, {"max_queue_size": q}):
            yield {"self": rec, "args": {}}


@gen("RotatingBloomFilter.__rotate_bloom_filter")
def _g_rb_rotate(tier, rnd):
    for q in (1, 2, 3):
        for m, k, rec in _exp_recipes("RotatingBloomFilter", tier, rnd, {"max_queue_size": q}):
            for force in (False, True):
                yield {"self": rec, "args": {"force": force}}


# ---- cuckoo filters -------------------------------------------------------------------------------------------------
CK = "probables.cuckoo.cuckoo.CuckooFilter"


def _ck_hash(rnd):
    """hash over a tiny key universe k0..k7 plus the decimal strings of fingerprints (the alternate-bucket hash)"""
    table = [[f"k{i}", rnd.randrange(1, 9)] for i in range(8)]
    return {"__func__": {"kind": "simple_table", "table": table, "default": 3,
                         "digits": {str(d): rnd.randrange(0, 7) for d in range(0, 300)}}}


def cuckoo_states(tier, rnd, cls=CK):
    for cap in (1, 2, 3):
        for bs in (1, 2):
            for swaps in (1, 2, 3):
                for auto in (False, True):
                    for nkeys in (0, 1, 2, 3, 4, 6):
                        hf = _ck_hash(rnd)
                        ops = [["add", f"k{rnd.randrange(8 if rnd.random() < 0.6 else 3)}"] for _ in range(nkeys)]
                        yield {"__recipe__": cls, "args": {"capacity": cap, "bucket_size": bs, "max_swaps": swaps,
                                                          "auto_expand": auto, "finger_size": 1, "hash_function": hf},
                               "ops_tolerant": ops}


@gen("CuckooFilter.add", "CuckooFilter.check", "CuckooFilter.remove")
def _g_ck_keys(tier, rnd):
    for rec in cuckoo_states(tier, rnd):
        for key in ("k0", "k1", "k5"):
            for script in ([0, 0, 0, 0, 0, 0], [1, 0, 1, 0, 1, 1], [rnd.randrange(4) for _ in range(8)]):
                yield {"self": rec, "args": {"key": key}, "rand": script}


@gen("CuckooFilter.expand")
def _g_ck_expand(tier, rnd):
    for rec in cuckoo_states(tier, rnd):
        for script in ([0] * 12, [rnd.randrange(4) for _ in range(12)]):
            yield {"self": rec, "args": {}, "rand": script}


def _ck_internal_expand(argname):
    def g(tier, rnd):
        n = 0
        for rec in cuckoo_states(tier, rnd):
            n += 1
            for extra in (None, 0, 9, 200 + n % 50):  # fingerprints outside the stored ones (1..8); 0 is a legal fingerprint
                yield {"self": rec, "args": {argname: extra}, "rand": [rnd.randrange(4) for _ in range(12)]}
    return g


gen("CuckooFilter._setup_expand", "CuckooFilter._expand_logic")(_ck_internal_expand("extra_fingerprint"))
gen("CuckooFilter._deal_with_insertion")(_ck_internal_expand("finger"))


@gen("CuckooFilter._check_if_present", "CuckooFilter._insert_fingerprint")
def _g_ck_internal_fp(tier, rnd):
    for rec in cuckoo_states(tier, rnd):
        cap = rec["args"]["capacity"]
        for fp in (0, 1, 3, 8, 77):
            i1, i2 = rnd.randrange(cap), rnd.randrange(cap)
            yield {"self": rec, "args": {"fingerprint": fp, "idx_1": i1, "idx_2": i2},
                   "rand": [rnd.randrange(4) for _ in range(12)]}


CCK = "probables.cuckoo.countingcuckoo.CountingCuckooFilter"


@gen("CountingCuckooFilter.add", "CountingCuckooFilter.check", "CountingCuckooFilter.remove")
def _g_cck_keys(tier, rnd):
    for rec in cuckoo_states(tier, rnd, CCK):
        for key in ("k0", "k1", "k5"):
            for script in ([0, 0, 0, 0, 0, 0], [1, 0, 1, 0, 1, 1], [rnd.randrange(4) for _ in range(8)]):
                yield {"self": rec, "args": {"key": key}, "rand": script}


@gen("CountingCuckooFilter.expand")
def _g_cck_expand(tier, rnd):
    for rec in cuckoo_states(tier, rnd, CCK):
        for script in ([0] * 12, [rnd.randrange(4) for _ in range(12)]):
            yield {"self": rec, "args": {}, "rand": script}


@gen("CountMinSketch.frombytes")
def _g_cms_frombytes(tier, rnd):
    import struct
    for w in (1, 2, 3):
        for d in (1, 2):
            cells = [rnd.randrange(-5, 50) for _ in range(w * d)]
            blob = struct.pack(f"{w * d}i", *cells) + struct.pack("IIq", w, d, rnd.randrange(0, 1000))
            yield {"self": None, "args": {"b": {"__bytes__": blob.hex()}, "hash_function": None}}


def _cms_sub_blobs(rnd, extra):
    import struct
    for w in (1, 2, 3):
        for d in (1, 2):
            cells = [rnd.randrange(-5, 50) for _ in range(w * d)]
            blob = struct.pack(f"{w * d}i", *cells) + struct.pack("IIq", w, d, rnd.randrange(0, 1000))
            yield {"self": None, "args": {"b": {"__bytes__": blob.hex()}, extra: rnd.randrange(1, 9), "hash_function": None}}


@gen("HeavyHitters.frombytes")
def _g_hh_frombytes(tier, rnd):
    yield from _cms_sub_blobs(rnd, "num_hitters")


@gen("StreamThreshold.frombytes")
def _g_st_frombytes(tier, rnd):
    yield from _cms_sub_blobs(rnd, "threshold")


# ---- serialisation contracts: native cross-check of the stream / struct / hex models ---------------------------------------------
CBF = "probables.blooms.countingbloom.CountingBloomFilter"
EBF = "probables.blooms.expandingbloom.ExpandingBloomFilter"
RBF = "probables.blooms.expandingbloom.RotatingBloomFilter"


def _prefixes(rnd):
    return ["", bytes(rnd.randrange(256) for _ in range(rnd.randrange(1, 7))).hex()]


def _natural_blooms(rnd, cls=BF, cellmax=255):
    for est, fpr in NATURAL_GEOMETRIES:
        m = natural_m(est, fpr)
        n = -(-m // 8) if cls == BF else m
        for cells in ([0] * n, [rnd.randrange(cellmax + 1) for _ in range(n)], [cellmax] * n):
            for added in (0, 3, 2**40 + 5):
                yield est, fpr, natural(cls, est, fpr, cells, added)


@gen("BloomFilter.export")
def _g_bf_export(tier, rnd):
    for est, fpr, rec in _natural_blooms(rnd):
        for pre in _prefixes(rnd):
            yield {"self": rec, "args": {"file": {"__bytesio__": pre}}}


@gen("BloomFilter.__bytes__", "BloomFilter.export_hex")
def _g_bf_bytes(tier, rnd):
    for est, fpr, rec in _natural_blooms(rnd):
        yield {"self": rec, "args": {}}


@gen("BloomFilter.export@CountingBloomFilter")
def _g_cbf_export(tier, rnd):
    for est, fpr, rec in _natural_blooms(rnd, CBF, 2**32 - 1):
        for pre in _prefixes(rnd):
            yield {"self": rec, "args": {"file": {"__bytesio__": pre}}}


@gen("BloomFilter.__bytes__@CountingBloomFilter", "BloomFilter.export_hex@CountingBloomFilter")
def _g_cbf_bytes(tier, rnd):
    for est, fpr, rec in _natural_blooms(rnd, CBF, 2**32 - 1):
        yield {"self": rec, "args": {}}


def _blobs(rnd, cls, hexed=False):
    """exports of real filters (built with the library itself in the native process)"""
    import importlib
    mod, name = cls.rsplit(".", 1)
    K = getattr(importlib.import_module(mod), name)
    for est, fpr in NATURAL_GEOMETRIES:
        for nkeys in (0, 1, 4):
            f = K(est, fpr)
            for i in range(nkeys):
                f.add(f"k{rnd.randrange(40)}")
            yield est, fpr, (f.export_hex() if hexed else bytes(f).hex())


@gen("BloomFilter.frombytes")
def _g_bf_frombytes(tier, rnd):
    for est, fpr, blob in _blobs(rnd, BF):
        yield {"self": None, "args": {"b": {"__bytes__": blob}, "hash_function": None}}


@gen("CountingBloomFilter.frombytes")
def _g_cbf_frombytes(tier, rnd):
    for est, fpr, blob in _blobs(rnd, CBF):
        yield {"self": None, "args": {"b": {"__bytes__": blob}, "hash_function": None}}


def _g_load_for(cls):
    def g(tier, rnd):
        for est, fpr, blob in _blobs(rnd, cls):
            yield {"self": natural(cls, 1, 0.5), "args": {"file": {"__bytes__": blob}, "hash_function": None}}
    return g


GENS["BloomFilter._load"] = _g_load_for(BF)
GENS["BloomFilter._load@CountingBloomFilter"] = _g_load_for(CBF)


def _g_load_hex_for(cls):
    def g(tier, rnd):
        for est, fpr, blob in _blobs(rnd, cls, hexed=True):
            yield {"self": natural(cls, 1, 0.5), "args": {"hex_string": {"__hex__": blob}, "hash_function": None}}
    return g


GENS["BloomFilter._load_hex"] = _g_load_hex_for(BF)
GENS["BloomFilter._load_hex@CountingBloomFilter"] = _g_load_hex_for(CBF)


@gen("BloomFilter._parse_footer")
def _g_bf_footer(tier, rnd):
    for est, fpr, blob in _blobs(rnd, BF):
        yield {"self": None, "args": {"stct": {"__struct__": "QQf"}, "d": {"__bytes__": blob[-40:]}}}


@gen("BloomFilter._parse_footer@be")
def _g_bf_footer_be(tier, rnd):
    for est, fpr, blob in _blobs(rnd, BF, hexed=True):
        yield {"self": None, "args": {"stct": {"__struct__": ">QQf"}, "d": {"__bytes__": blob[-40:]}}}


@gen("BloomFilter._parse_bloom_array")
def _g_bf_parse_array(tier, rnd):
    for est, fpr, blob in _blobs(rnd, BF):
        n = len(blob) // 2 - 20
        yield {"self": natural(BF, est, fpr), "args": {"b": {"__bytes__": blob}, "offset": n}}


@gen("BloomFilter._parse_bloom_array@CountingBloomFilter")
def _g_cbf_parse_array(tier, rnd):
    for est, fpr, blob in _blobs(rnd, CBF):
        n = len(blob) // 2 - 20
        yield {"self": natural(CBF, est, fpr), "args": {"b": {"__bytes__": blob}, "offset": n}}


@gen("CountMinSketch.export")
def _g_cms_export(tier, rnd):
    for w, d, rec in cms_states(tier, rnd):
        for pre in _prefixes(rnd)[:1 + (w == 1)]:
            yield {"self": rec, "args": {"file": {"__bytesio__": pre}}}


@gen("CountMinSketch.__bytes__")
def _g_cms_bytes(tier, rnd):
    for w, d, rec in cms_states(tier, rnd):
        yield {"self": rec, "args": {}}


def _cms_blobs(rnd):
    import struct
    for w in (1, 2, 3):
        for d in (1, 2):
            cells = [rnd.randrange(-5, 50) for _ in range(w * d)]
            yield w, d, (struct.pack(f"{w * d}i", *cells) + struct.pack("IIq", w, d, rnd.randrange(-9, 1000))).hex()


@gen("CountMinSketch._parse_footer")
def _g_cms_footer(tier, rnd):
    for w, d, blob in _cms_blobs(rnd):
        yield {"self": None, "args": {"file": {"__bytes__": blob}}}


@gen("CountMinSketch._parse_bytes")
def _g_cms_parse(tier, rnd):
    for w, d, blob in _cms_blobs(rnd):
        yield {"self": {"__recipe__": CMS + "CountMinSketch", "args": {"width": 1, "depth": 1}}, "args": {"file": {"__bytes__": blob}}}


@gen("ExpandingBloomFilter.export")
def _g_exp_export(tier, rnd):
    for cls in ("ExpandingBloomFilter", "RotatingBloomFilter"):
        for m, k, rec in _exp_recipes(cls, tier, rnd, {"max_queue_size": 3} if cls.startswith("Rot") else None):
            for pre in _prefixes(rnd)[:1]:
                yield {"self": rec, "args": {"file": {"__bytesio__": pre}}}


@gen("ExpandingBloomFilter.__bytes__")
def _g_exp_bytes(tier, rnd):
    for cls in ("ExpandingBloomFilter", "RotatingBloomFilter"):
        for m, k, rec in _exp_recipes(cls, tier, rnd, {"max_queue_size": 3} if cls.startswith("Rot") else None):
            yield {"self": rec, "args": {}}


def _exp_blobs(rnd, cls=EBF):
    import importlib
    mod, name = cls.rsplit(".", 1)
    K = getattr(importlib.import_module(mod), name)
    for est, fpr in NATURAL_GEOMETRIES:
        for nkeys in (0, 1, est, 2 * est + 1):
            f = K(est, fpr) if cls == EBF else K(est, fpr, max_queue_size=4)
            for i in range(nkeys):
                f.add(f"k{i}", force=True)
            if rnd.random() < 0.3:
                f.push()
            yield est, fpr, bytes(f).hex()


@gen("ExpandingBloomFilter.frombytes")
def _g_exp_frombytes(tier, rnd):
    for est, fpr, blob in _exp_blobs(rnd):
        yield {"self": None, "args": {"b": {"__bytes__": blob}, "hash_function": None}}


@gen("RotatingBloomFilter.frombytes")
def _g_rot_frombytes(tier, rnd):
    for est, fpr, blob in _exp_blobs(rnd, RBF):
        yield {"self": None, "args": {"b": {"__bytes__": blob}, "max_queue_size": 4, "hash_function": None}}


@gen("ExpandingBloomFilter._parse_footer")
def _g_exp_footer(tier, rnd):
    for est, fpr, blob in _exp_blobs(rnd):
        yield {"self": None, "args": {"b": {"__bytes__": blob}}}


@gen("ExpandingBloomFilter._parse_blooms")
def _g_exp_parse(tier, rnd):
    import struct
    for est, fpr, blob in _exp_blobs(rnd):
        raw = bytes.fromhex(blob)
        size = struct.unpack("QQQf", raw[-28:])[0]
        yield {"self": {"__recipe__": EBF, "args": {"est_elements": est, "false_positive_rate": fpr}},
               "args": {"b": {"__bytes__": blob}, "size": size}}


@gen("CuckooFilter.export")
def _g_ck_export(tier, rnd):
    for rec in cuckoo_states(tier, rnd):
        yield {"self": rec, "args": {"file": {"__bytesio__": ""}}}


@gen("CuckooFilter.__bytes__")
def _g_ck_bytes(tier, rnd):
    for rec in cuckoo_states(tier, rnd):
        yield {"self": rec, "args": {}}


@gen("CuckooFilter._parse_bucket")
def _g_ck_parse_bucket(tier, rnd):
    import struct
    rec = next(iter(cuckoo_states(tier, rnd)))
    for n in (0, 1, 2, 3, 4):
        for _ in range(6):
            cells = [rnd.choice([0, 0, 1, 2, 7, 2**32 - 1]) for _ in range(n)]
            yield {"self": rec, "args": {"d": {"__bytes__": struct.pack(f"{n}I", *cells).hex()}}}


@gen("CuckooFilter._parse_footer")
def _g_ck_parse_footer(tier, rnd):
    import struct
    rec = next(iter(cuckoo_states(tier, rnd)))
    for cap in (1, 2, 3):
        for bs in (1, 2, 4):
            blob = struct.pack(f"{cap * bs}I", *[rnd.randrange(0, 9) for _ in range(cap * bs)]) + struct.pack("II", bs, rnd.randrange(1, 9))
            yield {"self": rec, "args": {"d": {"__bytes__": blob.hex()}, "stct": {"__struct__": "II"}}}
