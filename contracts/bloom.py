"""BloomFilter / BloomFilterOnDisk (C01, C12, C13, C14, C19)"""
from pyvc.api import classinfo, contract

BLOOM_FIELDS = {"_on_disk": "bool", "_type": "str", "_typecode": "str", "_bits_per_elm": "float",
                "_bloom": "array:B", "_est_elements": "int", "_fpr": "float", "_bloom_length": "int",
                "_hash_func": "hashfunc", "_els_added": "int", "_number_hashes": "int", "_num_bits": "int"}
classinfo("BloomFilter", "probables.blooms.bloom", BLOOM_FIELDS, inv="inv_bloom(self)",
          consts={"_typecode": "B", "_bits_per_elm": 8.0})

_BITS_AFTER_ADD = ("all(bit(self._bloom, k) == (old(bit(self._bloom, k)) or "
                   "(k < self._num_bits and hit(hashes, {n}, self._num_bits, k))) "
                   "for k in range(0, 8 * self._bloom_length))")
_TAIL_SAME = "all(self._bloom[b] == old(self._bloom[b]) for b in range(self._bloom_length, len(self._bloom)))"

contract("BloomFilter.add_alt", contexts=["BloomFilter"], properties=["C01", "C14", "C06", "C12"],
         params={"hashes": "list[int]"},
         requires=["inv_bloom(self)", ("enough_hashes", "len(hashes) >= self._number_hashes")],
         modifies=["self._bloom", "self._els_added"],
         ensures=[("bits_exactly_or_of_positions", _BITS_AFTER_ADD.format(n="self._number_hashes")),
                  ("counter_plus_one", "self._els_added == old(self._els_added) + 1"),
                  ("length_kept", "len(self._bloom) == old(len(self._bloom))"),
                  ("bytes_after_the_bit_array_kept", _TAIL_SAME),
                  ("inv", "inv_bloom(self)")],
         loops={0: {"invariant": [("bits", _BITS_AFTER_ADD.format(n="_i")),
                                  ("length_kept", "len(self._bloom) == old(len(self._bloom))"),
                                  ("tail", _TAIL_SAME)]}})

contract("BloomFilter.check_alt", contexts=["BloomFilter"], properties=["C01", "C19", "C06"],
         params={"hashes": "list[int]"}, returns="bool",
         requires=["inv_bloom(self)", ("enough_hashes", "len(hashes) >= self._number_hashes")],
         modifies=[],
         ensures=[("all_positions_set", "result == all(bit(self._bloom, hashes[j] % self._num_bits) "
                                        "for j in range(0, self._number_hashes))")],
         loops={0: {"invariant": [("prefix_set", "all(bit(self._bloom, hashes[j] % self._num_bits) "
                                                 "for j in range(0, _i))")]}})


# ---- sizing and construction (C07; needed by union/intersection and the loaders) ---------------------
contract("BloomFilter._get_optimized_params", kind="classmethod",
         contexts=["BloomFilter", "BloomFilterOnDisk", "CountingBloomFilter"],
         properties=["C07", "C01", "C12", "C13", "C06", "C05"],
         params={"estimated_elements": "int", "false_positive_rate": "float"}, returns="tuple[float,int,int]",
         reveal=["bloom_m", "bloom_k"],
         requires=[("rate_representable", "false_positive_rate < 0.0 or f32(false_positive_rate) > 0.0")],
         raises={"InitializationError": {"when": "estimated_elements <= 0 or false_positive_rate < 0.0 or "
                                                 "false_positive_rate >= 1.0 or "
                                                 "bloom_k(estimated_elements, bloom_m(estimated_elements, "
                                                 "f32(false_positive_rate))) == 0", "state": "any"}},
         modifies=[],
         ensures=[("rate_narrowed_to_float32", "result[0] == f32(false_positive_rate)"),
                  ("bits_formula", "result[2] == bloom_m(estimated_elements, f32(false_positive_rate))"),
                  ("hashes_formula", "result[1] == bloom_k(estimated_elements, result[2])"),
                  ("at_least_one_hash", "result[1] >= 1"), ("at_least_one_bit", "result[2] >= 1")])

contract("BloomFilter._set_values", contexts=["BloomFilter", "CountingBloomFilter", "BloomFilterOnDisk"], properties=["C01", "C12", "C13", "C05"],
         params={"est_els": "int", "fpr": "float", "n_hashes": "int", "n_bits": "int", "hash_func": "opt[hashfunc]"},
         requires=[("bits_below_2_53", "0 <= n_bits < 2**53"), ("bits_per_element", "self._bits_per_elm > 0")],
         modifies=["self._est_elements", "self._fpr", "self._bloom_length", "self._hash_func", "self._els_added",
                   "self._number_hashes", "self._num_bits"],
         ensures=["self._est_elements == est_els", "self._fpr == fpr", ("length_from_bits_per_element", "self._bloom_length == ceil_(n_bits / self._bits_per_elm)"),
                  "self._els_added == 0", "self._number_hashes == n_hashes", "self._num_bits == n_bits",
                  ("hash_function_kept_or_default",
                   "self._hash_func == (hash_func if hash_func is not None else default_fnv_1a)")])

_PARAMS_ONLY = [("from_parameters", "est_elements is not None and false_positive_rate is not None"),
                ("rate_representable", "false_positive_rate < 0.0 or f32(false_positive_rate) > 0.0"),
                ("bits_below_2_53", "est_elements <= 0 or false_positive_rate < 0.0 or false_positive_rate >= 1.0 or "
                                    "bloom_m(est_elements, f32(false_positive_rate)) < 2**53")]
_INIT_RAISES = {"InitializationError": {
    "when": "est_elements <= 0 or false_positive_rate < 0.0 or false_positive_rate >= 1.0 or "
            "bloom_k(est_elements, bloom_m(est_elements, f32(false_positive_rate))) == 0", "state": "any"}}
_FRESH = [("geometry", "self._est_elements == est_elements and self._fpr == f32(false_positive_rate) and "
                       "self._num_bits == bloom_m(est_elements, f32(false_positive_rate)) and "
                       "self._number_hashes == bloom_k(est_elements, self._num_bits)"),
          ("inv", "inv_bloom_mem(self)"),
          ("empty", "self._els_added == 0 and all(self._bloom[b] == 0 for b in range(0, self._bloom_length))"),
          ("hash_function_kept_or_default",
           "self._hash_func == (hash_function if hash_function is not None else default_fnv_1a)")]

contract("BloomFilter._load_init", contexts=["BloomFilter"], properties=["C01", "C12", "C13", "C19"],
         params={"filepath": "none", "hash_function": "opt[hashfunc]", "hex_string": "none",
                 "est_elements": "opt[int]", "false_positive_rate": "opt[float]"},
         requires=_PARAMS_ONLY + [("typecode_B", "self._typecode == 'B' and self._bits_per_elm == 8.0")],
         raises=_INIT_RAISES,
         modifies=["self._est_elements", "self._fpr", "self._bloom_length", "self._hash_func", "self._els_added",
                   "self._number_hashes", "self._num_bits", "self._bloom"],
         ensures=_FRESH,
         note="construction from parameters; the loading branches are under contract in serial.py")

contract("BloomFilter.__init__", contexts=["BloomFilter"], properties=["C01", "C12", "C13", "C19"],
         params={"est_elements": "opt[int]", "false_positive_rate": "opt[float]", "filepath": "none",
                 "hex_string": "none", "hash_function": "opt[hashfunc]"},
         requires=_PARAMS_ONLY,
         raises=_INIT_RAISES,
         modifies=["self"],
         ensures=_FRESH + [("in_memory", "self._on_disk == False and self._typecode == 'B' and self._bits_per_elm == 8.0")])

contract("BloomFilter.clear", contexts=["BloomFilter"], properties=["C19", "C01"],
         requires=["inv_bloom(self)"],
         modifies=["self._bloom", "self._els_added"],
         ensures=[("counter_zero", "self._els_added == 0"),
                  ("cells_zero", "all(self._bloom[b] == 0 for b in range(0, self._bloom_length))"),
                  ("length_kept", "len(self._bloom) == old(len(self._bloom))"),
                  ("bytes_after_the_bit_array_kept", _TAIL_SAME)],
         loops={0: {"invariant": [("prefix_zero", "all(self._bloom[b] == 0 for b in range(0, _i))"),
                                  ("length_kept", "len(self._bloom) == old(len(self._bloom))"),
                                  ("tail", _TAIL_SAME)]}})

contract("BloomFilter.hashes", contexts=["BloomFilter"], properties=["C01", "C19", "C13"],
         params={"key": "key", "depth": "opt[int]"}, returns="list[int]",
         modifies=[],
         result_is="strategy(self._hash_func, key, depth if depth is not None else self._number_hashes)")

contract("BloomFilter.add", contexts=["BloomFilter"], properties=["C01", "C14"],
         params={"key": "key"},
         requires=["inv_bloom(self)",
                   ("strategy_returns_enough",
                    "len(strategy(self._hash_func, key, self._number_hashes)) >= self._number_hashes")],
         modifies=["self._bloom", "self._els_added"],
         ensures=[("bits_exactly_or_of_positions",
                   "all(bit(self._bloom, k) == (old(bit(self._bloom, k)) or (k < self._num_bits and "
                   "hit(strategy(self._hash_func, key, self._number_hashes), self._number_hashes, self._num_bits, k))) "
                   "for k in range(0, 8 * self._bloom_length))"),
                  ("counter_plus_one", "self._els_added == old(self._els_added) + 1"),
                  ("length_kept", "len(self._bloom) == old(len(self._bloom))"),
                  ("inv", "inv_bloom(self)")])

contract("BloomFilter.check", contexts=["BloomFilter"], properties=["C01", "C19"],
         params={"key": "key"}, returns="bool",
         requires=["inv_bloom(self)",
                   ("strategy_returns_enough",
                    "len(strategy(self._hash_func, key, self._number_hashes)) >= self._number_hashes")],
         modifies=[],
         ensures=[("all_positions_set",
                   "result == all(bit(self._bloom, strategy(self._hash_func, key, self._number_hashes)[j] "
                   "% self._num_bits) for j in range(0, self._number_hashes))")])

contract("BloomFilter.__contains__", contexts=["BloomFilter"], properties=["C01", "C19"],
         params={"key": "key"}, returns="bool",
         requires=["inv_bloom(self)",
                   ("strategy_returns_enough",
                    "len(strategy(self._hash_func, key, self._number_hashes)) >= self._number_hashes")],
         modifies=[],
         ensures=[("same_as_check",
                   "result == all(bit(self._bloom, strategy(self._hash_func, key, self._number_hashes)[j] "
                   "% self._num_bits) for j in range(0, self._number_hashes))")])

contract("BloomFilter._get_element", contexts=["BloomFilter"], properties=["C12", "C13", "C19"],
         params={"idx": "int"}, returns="int",
         requires=[("in_range", "0 <= idx < len(self._bloom)")],
         modifies=[],
         ensures=[("cell", "result == self._bloom[idx]"), ("byte", "0 <= result <= 255")])

contract("BloomFilter._cnt_number_bits_set", contexts=["BloomFilter"], properties=["C14", "C19", "C13"],
         returns="int",
         requires=["inv_bloom(self)"],
         modifies=[],
         ensures=[("popcount_of_cells", "result == popcount_bytes(self._bloom, self._bloom_length)")],
         loops={0: {"invariant": [("partial", "setbits == popcount_bytes(self._bloom, _i)")]}})

contract("BloomFilter.estimate_elements", contexts=["BloomFilter"], properties=["C14", "C19"],
         returns="int",
         requires=["inv_bloom(self)"],
         modifies=[],
         ensures=[("standard_estimate",
                   "result == (-1 if popcount_bytes(self._bloom, self._bloom_length) >= self._num_bits else "
                   "est_elements_formula(self._num_bits, self._number_hashes, "
                   "popcount_bytes(self._bloom, self._bloom_length)))")])

contract("BloomFilter.current_false_positive_rate", contexts=["BloomFilter"], properties=["C14", "C19"],
         returns="float",
         requires=["inv_bloom(self)"],
         modifies=[],
         ensures=[("standard_rate",
                   "result == pow_(1 - exp_((self._number_hashes * -1 * self._els_added) / self._num_bits), "
                   "self._number_hashes)")])

contract("BloomFilter._verify_bloom_similarity", contexts=["BloomFilter"], properties=["C13", "C12", "C19"],
         params={"second": "obj:BloomFilter"}, returns="bool",
         modifies=[],
         alias_cases=[("second", "self")],
         ensures=[("compatible_iff_same_hash_count_bit_count_and_probe_hash",
                   "result == (self._number_hashes == second._number_hashes and self._num_bits == second._num_bits "
                   "and strategy(self._hash_func, 'test', self._number_hashes) == "
                   "strategy(second._hash_func, 'test', second._number_hashes))")])

contract("probables.blooms.bloom._verify_not_type_mismatch", kind="function", properties=["C13"],
         params={"second": "obj:BloomFilter"}, returns="bool",
         variants=[{"second": "foreign"}],
         modifies=[],
         ensures=[("is_a_bloom_filter", "result == isinstance(second, (BloomFilter, BloomFilterOnDisk))")])

classinfo("BloomFilterOnDisk", "probables.blooms.bloom",
          dict(BLOOM_FIELDS, _bloom="mmap", _filepath="key", _BloomFilterOnDisk__file_pointer="fileptr"),
          bases=["BloomFilter"], inv="inv_bloom_disk(self)", consts={"_typecode": "B", "_bits_per_elm": 8.0})

from pyvc.api import CONTRACTS  # noqa: E402
CONTRACTS["BloomFilter._get_element"].contexts.append("BloomFilterOnDisk")
CONTRACTS["BloomFilter.check_alt"].contexts.append("BloomFilterOnDisk")
CONTRACTS["BloomFilter.check"].contexts.append("BloomFilterOnDisk")
CONTRACTS["BloomFilter.__contains__"].contexts.append("BloomFilterOnDisk")
CONTRACTS["BloomFilter.hashes"].contexts.append("BloomFilterOnDisk")
CONTRACTS["BloomFilter._verify_bloom_similarity"].contexts.append("BloomFilterOnDisk")
CONTRACTS["BloomFilter._cnt_number_bits_set"].contexts.append("BloomFilterOnDisk")

_SETOP_REQ = [("receiver_inv", "inv_bloom(self)"), ("receiver_geometry", "geo_bloom(self)"),
              ("bits_below_2_53", "self._num_bits < 2**53"),
              ("second_inv", "not isinstance(second, (BloomFilter, BloomFilterOnDisk)) or inv_bloom(second)")]
_SETOP_RAISES = {"TypeError": "not isinstance(second, (BloomFilter, BloomFilterOnDisk))"}
_SETOP_VARIANTS = [{"second": "obj:BloomFilterOnDisk"}, {"second": "foreign"}]


def _setop_ensures(op, word):
    return [("none_iff_incompatible", "(result is None) == (not compatible_blooms(self, second))"),
            ("cells", f"implies(result is not None, all(result._bloom[b] == (self._bloom[b] {op} second._bloom[b]) "
                      "for b in range(0, self._bloom_length)))"),
            ("bits", f"implies(result is not None, all(bit(result._bloom, k) == (bit(self._bloom, k) {word} "
                     "bit(second._bloom, k)) for k in range(0, 8 * self._bloom_length)))"),
            ("same_geometry", "implies(result is not None, result._num_bits == self._num_bits and "
                              "result._number_hashes == self._number_hashes and result._bloom_length == self._bloom_length "
                              "and result._est_elements == self._est_elements and result._fpr == self._fpr and "
                              "result._hash_func == self._hash_func)"),
            ("result_inv", "implies(result is not None, inv_bloom_mem(result))"),
            ("count_is_estimate", "implies(result is not None, result._els_added == "
                                  "(-1 if popcount_bytes(result._bloom, result._bloom_length) >= result._num_bits else "
                                  "est_elements_formula(result._num_bits, result._number_hashes, "
                                  "popcount_bytes(result._bloom, result._bloom_length))))")]


def _setop_loop(op):
    return {0: {"invariant": [("prefix", f"all(res._bloom[b] == (self._bloom[b] {op} second._bloom[b]) for b in range(0, _i))")]}}


for _ctx_recv in ("BloomFilter",):
    pass

contract("BloomFilter.union", contexts=["BloomFilter", "BloomFilterOnDisk"], properties=["C12", "C13", "C19", "C01"],
         params={"second": "obj:BloomFilter"}, returns="opt[obj:BloomFilter]",
         requires=_SETOP_REQ, raises=_SETOP_RAISES, modifies=[],
         alias_cases=[("second", "self")], variants=_SETOP_VARIANTS,
         ensures=_setop_ensures("|", "or"), loops=_setop_loop("|"))

contract("BloomFilter.intersection", contexts=["BloomFilter", "BloomFilterOnDisk"], properties=["C13", "C19"],
         params={"second": "obj:BloomFilter"}, returns="opt[obj:BloomFilter]",
         requires=_SETOP_REQ, raises=_SETOP_RAISES, modifies=[],
         alias_cases=[("second", "self")], variants=_SETOP_VARIANTS,
         ensures=_setop_ensures("&", "and"), loops=_setop_loop("&"))

contract("BloomFilter.jaccard_index", contexts=["BloomFilter", "BloomFilterOnDisk"], properties=["C13", "C19"],
         params={"second": "obj:BloomFilter"}, returns="opt[float]",
         requires=[("receiver_inv", "inv_bloom(self)"),
                   ("second_inv", "not isinstance(second, (BloomFilter, BloomFilterOnDisk)) or inv_bloom(second)")],
         raises=_SETOP_RAISES, modifies=[],
         alias_cases=[("second", "self")], variants=_SETOP_VARIANTS,
         ensures=[("none_iff_incompatible", "(result is None) == (not compatible_blooms(self, second))"),
                  ("ratio_of_set_positions",
                   "implies(result is not None, result == (1.0 if popcount_or(self._bloom, second._bloom, self._bloom_length) == 0 "
                   "else popcount_and(self._bloom, second._bloom, self._bloom_length) / "
                   "popcount_or(self._bloom, second._bloom, self._bloom_length)))"),
                  ("between_0_and_1", "implies(result is not None, 0.0 <= result <= 1.0)")],
         loops={0: {"invariant": [("union_count", "count_union == popcount_or(self._bloom, second._bloom, _i)"),
                                  ("inter_count", "count_int == popcount_and(self._bloom, second._bloom, _i)"),
                                  ("ordered", "0 <= count_int <= count_union")]}})
