"""CountMinSketch family (C02, C12, C13, C14, C16, C17, C19)"""
from pyvc.api import classinfo, contract

CMS_FIELDS = {"_CountMinSketch__width": "int", "_CountMinSketch__depth": "int", "_CountMinSketch__confidence": "float",
              "_CountMinSketch__error_rate": "float", "_CountMinSketch__elements_added": "int",
              "_CountMinSketch__query_method": "method", "_bins": "array:i", "_hash_function": "hashfunc"}
classinfo("CountMinSketch", "probables.countminsketch.countminsketch", CMS_FIELDS, inv="inv_cms(self)")

contract("CountMinSketch.__min_query", kind="staticmethod", contexts=["CountMinSketch"], properties=["C02", "C19"],
         params={"results": "list[int]"}, returns="int",
         requires=[("nonempty", "len(results) >= 1")], modifies=[],
         result_is="results[0]")

contract("CountMinSketch.__mean_query", contexts=["CountMinSketch"], properties=["C06", "C19"],
         params={"results": "list[int]"}, returns="int",
         requires=["inv_cms(self)"], modifies=[],
         result_is="sum(results) // cd(self)")

contract("CountMinSketch.__mean_min_query", contexts=["CountMinSketch"], properties=["C06", "C19"],
         params={"results": "list[int]"}, returns="int", trusted=True,
         trusted_reason="mean-min estimator (list.sort + median): only its frame is used; it is outside the C02 claim "
                        "(default min mode)",
         requires=["inv_cms(self)", ("width_at_least_2", "cw(self) >= 2"), ("one_value_per_row", "len(results) == cd(self)")],
         modifies=[])

_HREQ = [("inv", "inv_cms(self)"), ("one_hash_per_row", "len(hashes) == cd(self)")]
_IDX = "(hashes[{j}] % cw(self)) + {j} * cw(self)"
_TOUCHED = ("all(self._bins[" + _IDX.format(j="j") + "] == {upd} for j in range(0, {rows}))")
_OTHERS = ("all(implies(all(" + _IDX.format(j="j") + " != x for j in range(0, {rows})), self._bins[x] == old(self._bins[x])) "
           "for x in range(0, cw(self) * cd(self)))")
_DISTINCT = ("all(all(j == j2 or bins[j] != bins[j2] for j2 in range(0, cd(self))) for j in range(0, cd(self)))")
_RESULT_MIN = ("implies(is_min_mode(self), all(result <= row_cell(self, hashes, i) for i in range(0, cd(self))) and "
               "any(result == row_cell(self, hashes, i) for i in range(0, cd(self))))")

contract("CountMinSketch.add_alt", contexts=["CountMinSketch"], properties=["C02", "C16", "C14", "C12", "C06"],
         params={"hashes": "list[int]", "num_els": "int"}, returns="int",
         requires=_HREQ + [("positive_amount", "num_els >= 1"),
                           ("mean_min_needs_width_2", "is_min_mode(self) or cw(self) >= 2")],
         modifies=["self._bins", "self._CountMinSketch__elements_added"],
         ensures=[("one_counter_per_row_saturating_add",
                   _TOUCHED.format(upd="clamp32(old(self._bins[" + _IDX.format(j="j") + "]) + num_els)", rows="cd(self)")),
                  ("all_other_counters_unchanged", _OTHERS.format(rows="cd(self)")),
                  ("total_saturating_add", "ctotal(self) == clamp64(old(ctotal(self)) + num_els)"),
                  ("inv", "inv_cms(self)"),
                  ("returns_what_check_reports", _RESULT_MIN)],
         loops={0: {"invariant": [
             ("rows_done", "all(self._bins[bins[j]] == clamp32(old(self._bins[bins[j]]) + num_els) for j in range(0, _i))"),
             ("rows_todo", "all(self._bins[bins[j]] == old(self._bins[bins[j]]) for j in range(_i, cd(self)))"),
             ("others", "all(implies(all(bins[j] != x for j in range(0, cd(self))), self._bins[x] == old(self._bins[x])) "
                        "for x in range(0, cw(self) * cd(self)))"),
             ("bins_in_range", "all(0 <= bins[j] < cw(self) * cd(self) for j in range(0, cd(self)))"),
             ("bins_distinct", _DISTINCT),
             ("vals_len", "len(vals) == cd(self) and len(bins) == cd(self)"),
             ("bins_are_row_cells", "all(bins[j] == (hashes[j] % cw(self)) + j * cw(self) for j in range(0, cd(self)))"),
             ("vals_done", "all(vals[j] == self._bins[bins[j]] for j in range(0, _i))"),
             ("vals_todo", "all(vals[j] == old(self._bins[bins[j]]) + num_els for j in range(_i, cd(self)))")]}})

contract("CountMinSketch.remove_alt", contexts=["CountMinSketch"], properties=["C02", "C16", "C14", "C06"],
         params={"hashes": "list[int]", "num_els": "int"}, returns="int",
         requires=_HREQ + [("positive_amount", "num_els >= 1"),
                           ("mean_min_needs_width_2", "is_min_mode(self) or cw(self) >= 2")],
         modifies=["self._bins", "self._CountMinSketch__elements_added"],
         ensures=[("one_counter_per_row_saturating_subtract",
                   _TOUCHED.format(upd="clamp32(old(self._bins[" + _IDX.format(j="j") + "]) - num_els)", rows="cd(self)")),
                  ("all_other_counters_unchanged", _OTHERS.format(rows="cd(self)")),
                  ("total_saturating_subtract", "ctotal(self) == clamp64(old(ctotal(self)) - num_els)"),
                  ("inv", "inv_cms(self)"),
                  ("returns_what_check_reports", _RESULT_MIN)],
         loops={0: {"invariant": [
             ("rows_done", "all(self._bins[bins[j]] == clamp32(old(self._bins[bins[j]]) - num_els) for j in range(0, _i))"),
             ("rows_todo", "all(self._bins[bins[j]] == old(self._bins[bins[j]]) for j in range(_i, cd(self)))"),
             ("others", "all(implies(all(bins[j] != x for j in range(0, cd(self))), self._bins[x] == old(self._bins[x])) "
                        "for x in range(0, cw(self) * cd(self)))"),
             ("bins_in_range", "all(0 <= bins[j] < cw(self) * cd(self) for j in range(0, cd(self)))"),
             ("bins_distinct", _DISTINCT),
             ("vals_len", "len(vals) == cd(self) and len(bins) == cd(self)"),
             ("bins_are_row_cells", "all(bins[j] == (hashes[j] % cw(self)) + j * cw(self) for j in range(0, cd(self)))"),
             ("vals_done", "all(vals[j] == self._bins[bins[j]] for j in range(0, _i))"),
             ("vals_todo", "all(vals[j] == old(self._bins[bins[j]]) - num_els for j in range(_i, cd(self)))")]}})

contract("CountMinSketch.check_alt", contexts=["CountMinSketch"], properties=["C02", "C19", "C06"],
         params={"hashes": "list[int]"}, returns="int",
         requires=_HREQ + [("mean_min_needs_width_2", "is_min_mode(self) or cw(self) >= 2")],
         modifies=[],
         ensures=[("minimum_over_the_rows", _RESULT_MIN)])

contract("CountMinSketch.hashes", contexts=["CountMinSketch"], properties=["C02", "C19"],
         params={"key": "key", "depth": "opt[int]"}, returns="list[int]", modifies=[],
         result_is="strategy(self._hash_function, key, cd(self) if depth is None else depth)")

_KREQ = [("inv", "inv_cms(self)"),
         ("strategy_returns_one_hash_per_row", "len(strategy(self._hash_function, key, cd(self))) == cd(self)"),
         ("mean_min_needs_width_2", "is_min_mode(self) or cw(self) >= 2")]
_KH = "strategy(self._hash_function, key, cd(self))"
_KIDX = "(" + _KH + "[{j}] % cw(self)) + {j} * cw(self)"
_KRESULT_MIN = ("implies(is_min_mode(self), all(result <= row_cell(self, " + _KH + ", i) for i in range(0, cd(self))) and "
                "any(result == row_cell(self, " + _KH + ", i) for i in range(0, cd(self))))")


def _key_level(sign, word):
    return [("one_counter_per_row", "all(self._bins[" + _KIDX.format(j="j") + "] == clamp32(old(self._bins[" + _KIDX.format(j="j")
             + "]) " + sign + " num_els) for j in range(0, cd(self)))"),
            ("all_other_counters_unchanged",
             "all(implies(all(" + _KIDX.format(j="j") + " != x for j in range(0, cd(self))), self._bins[x] == old(self._bins[x])) "
             "for x in range(0, cw(self) * cd(self)))"),
            ("total", "ctotal(self) == clamp64(old(ctotal(self)) " + sign + " num_els)"),
            ("inv", "inv_cms(self)"), ("returns_what_check_reports", _KRESULT_MIN)]


contract("CountMinSketch.add", contexts=["CountMinSketch"], properties=["C02", "C16", "C14"],
         params={"key": "key", "num_els": "int"}, returns="int",
         requires=_KREQ + [("positive_amount", "num_els >= 1")],
         modifies=["self._bins", "self._CountMinSketch__elements_added"], ensures=_key_level("+", "add"))

contract("CountMinSketch.remove", contexts=["CountMinSketch"], properties=["C02", "C16", "C14"],
         params={"key": "key", "num_els": "int"}, returns="int",
         requires=_KREQ + [("positive_amount", "num_els >= 1")],
         modifies=["self._bins", "self._CountMinSketch__elements_added"], ensures=_key_level("-", "remove"))

contract("CountMinSketch.check", contexts=["CountMinSketch"], properties=["C02", "C19"],
         params={"key": "key"}, returns="int", requires=_KREQ, modifies=[],
         ensures=[("minimum_over_the_rows", _KRESULT_MIN)])

contract("CountMinSketch.clear", contexts=["CountMinSketch"], properties=["C19"],
         requires=["inv_cms(self)"], modifies=["self._bins", "self._CountMinSketch__elements_added"],
         ensures=[("total_zero", "ctotal(self) == 0"),
                  ("cells_zero", "all(self._bins[x] == 0 for x in range(0, cw(self) * cd(self)))"),
                  ("inv", "inv_cms(self)")],
         loops={0: {"invariant": [("prefix_zero", "all(self._bins[x] == 0 for x in range(0, _i))"),
                                  ("length_kept", "len(self._bins) == old(len(self._bins))")]}})

contract("CountMinSketch.join", contexts=["CountMinSketch"], properties=["C12", "C13", "C16", "C14", "C02"],
         params={"second": "obj:CountMinSketch"},
         requires=[("receiver_inv", "inv_cms(self)"),
                   ("second_inv", "not isinstance(second, CountMinSketch) or inv_cms(second)")],
         raises={"TypeError": "not isinstance(second, CountMinSketch)",
                 "CountMinSketchError": "isinstance(second, CountMinSketch) and (cw(self) != cw(second) or cd(self) != cd(second) or "
                                        "strategy(self._hash_function, 'test', cd(self)) != strategy(second._hash_function, 'test', cd(second)))"},
         modifies=["self._bins", "self._CountMinSketch__elements_added"],
         alias_cases=[("second", "self")], variants=[{"second": "foreign"}],
         ensures=[("cells_saturating_sum_saturated_cells_kept",
                   "all(self._bins[x] == (old(self._bins[x]) if (old(self._bins[x]) == -2147483648 or old(self._bins[x]) == 2147483647) "
                   "else clamp32(old(self._bins[x]) + old(second._bins[x]))) for x in range(0, cw(self) * cd(self)))"),
                  ("total_saturating_sum", "ctotal(self) == clamp64(old(ctotal(self)) + old(ctotal(second)))"),
                  ("inv", "inv_cms(self)")],
         loops={0: {"invariant": [
             ("prefix", "all(self._bins[x] == (old(self._bins[x]) if (old(self._bins[x]) == -2147483648 or old(self._bins[x]) == 2147483647) "
                        "else clamp32(old(self._bins[x]) + old(second._bins[x]))) for x in range(0, _i))"),
             ("rest", "all(self._bins[x] == old(self._bins[x]) for x in range(_i, cw(self) * cd(self)))"),
             ("length_kept", "len(self._bins) == old(len(self._bins))")]}})

_INIT_PARAMS = {"width": "opt[int]", "depth": "opt[int]", "confidence": "opt[float]", "error_rate": "opt[float]",
                "filepath": "none", "hash_function": "opt[hashfunc]"}
_WD = "(width is not None and depth is not None)"
_CE = "(confidence is not None and error_rate is not None)"
_INIT_REQ = [("confidence_below_1", "implies(not " + _WD + " and " + _CE + ", confidence < 1.0)")]
_INIT_RAISES_CMS = {"InitializationError": {
    "when": "(" + _WD + " and (width <= 0 or depth <= 0)) or (not " + _WD + " and " + _CE + " and (confidence <= 0 or error_rate <= 0))"
            " or (not " + _WD + " and not " + _CE + ")", "state": "any"}}
_INIT_ENS = [("explicit_geometry", "implies(" + _WD + ", cw(self) == width and cd(self) == depth)"),
             ("derived_width", "implies(not " + _WD + ", cw(self) == ceil_(2 / error_rate) and 2 / cw(self) <= error_rate)"),
             ("derived_depth", "implies(not " + _WD + ", cd(self) == ceil_((-1 * ln(1 - confidence)) / 0.6931471805599453) and "
                               "cd(self) * 0.6931471805599453 >= -1 * ln(1 - confidence))"),
             ("empty", "ctotal(self) == 0 and all(self._bins[x] == 0 for x in range(0, cw(self) * cd(self)))"),
             ("size", "len(self._bins) == cw(self) * cd(self)"),
             ("hash_function_kept_or_default",
              "self._hash_function == (hash_function if hash_function is not None else default_fnv_1a)")]

contract("CountMinSketch.__init__", contexts=["CountMinSketch"], properties=["C02", "C07", "C12", "C19"],
         params=_INIT_PARAMS, requires=_INIT_REQ, raises=_INIT_RAISES_CMS, modifies=["self"],
         ensures=_INIT_ENS + [("min_mode", "is_min_mode(self)"), ("inv", "inv_cms(self)")])

contract("CountMinSketch.query_type.setter", kind="setter", contexts=["CountMinSketch"], properties=["C19", "C05"],
         params={"val": "opt[str]"}, modifies=["self._CountMinSketch__query_method"],
         ensures=[("mode_by_name",
                   "self._CountMinSketch__query_method == (self._CountMinSketch__mean_query if (val is not None and val.lower() == 'mean') "
                   "else (self._CountMinSketch__mean_min_query if (val is not None and val.lower() == 'mean-min') "
                   "else self._CountMinSketch__min_query))")])

contract("CountMinSketch.query_type", kind="property", contexts=["CountMinSketch"], properties=["C19", "C05"],
         returns="str", modifies=[], requires=["valid_query_mode(self)"],
         ensures=[("names_the_mode",
                   "result == ('mean' if self._CountMinSketch__query_method == self._CountMinSketch__mean_query else "
                   "('mean-min' if self._CountMinSketch__query_method == self._CountMinSketch__mean_min_query else 'min'))")])

# ---- HeavyHitters / StreamThreshold (C17) ---------------------------------------------------------------------
from pyvc.api import CONTRACTS, clone_contract  # noqa: E402

HH_FIELDS = dict(CMS_FIELDS, _HeavyHitters__top_x="map", _HeavyHitters__top_x_size="int",
                 _HeavyHitters__num_hitters="int", _HeavyHitters__smallest="int")
ST_FIELDS = dict(CMS_FIELDS, _StreamThreshold__threshold="int", _StreamThreshold__meets_threshold="map")
classinfo("HeavyHitters", "probables.countminsketch.countminsketch", HH_FIELDS, bases=["CountMinSketch"], inv="inv_cms(self)")
classinfo("StreamThreshold", "probables.countminsketch.countminsketch", ST_FIELDS, bases=["CountMinSketch"], inv="inv_cms(self)")
classinfo("CountMeanSketch", "probables.countminsketch.countminsketch", CMS_FIELDS, bases=["CountMinSketch"], inv="inv_cms(self)")
classinfo("CountMeanMinSketch", "probables.countminsketch.countminsketch", CMS_FIELDS, bases=["CountMinSketch"], inv="inv_cms(self)")

for _k in ("CountMinSketch.hashes", "CountMinSketch.__min_query", "CountMinSketch.__mean_query",
           "CountMinSketch.__mean_min_query", "CountMinSketch.check_alt", "CountMinSketch.check"):
    CONTRACTS[_k].contexts += ["HeavyHitters", "StreamThreshold", "CountMeanSketch", "CountMeanMinSketch"]
for _r in ("HeavyHitters", "StreamThreshold"):
    clone_contract("CountMinSketch.add_alt", f"CountMinSketch.add_alt@{_r}", contexts=[_r], properties=["C17"])
clone_contract("CountMinSketch.remove_alt", "CountMinSketch.remove_alt@StreamThreshold", contexts=["StreamThreshold"],
               properties=["C17"])
for _r in ("HeavyHitters", "StreamThreshold", "CountMeanSketch", "CountMeanMinSketch"):
    clone_contract("CountMinSketch.__init__", f"CountMinSketch.__init__@{_r}", contexts=[_r], properties=["C17", "C05"])

TOP = "self._HeavyHitters__top_x"
SZ = "self._HeavyHitters__top_x_size"
NH = "self._HeavyHitters__num_hitters"
SM = "self._HeavyHitters__smallest"

contract("HeavyHitters.__init__", contexts=["HeavyHitters"], properties=["C17"],
         params=dict(_INIT_PARAMS, num_hitters="int"), requires=_INIT_REQ, raises=_INIT_RAISES_CMS, modifies=["self"],
         ensures=_INIT_ENS + [("min_mode", "is_min_mode(self)"), ("inv", "inv_cms(self)"),
                              ("empty_table", f"len({TOP}) == 0 and {SZ} == 0 and {SM} == 0 and {NH} == num_hitters and "
                                              f"all(not (k in {TOP}) for k in allkeys({TOP}))")])

_HH_T1 = f"upd(old({TOP}), key, result)"
contract("HeavyHitters.add_alt", contexts=["HeavyHitters"], properties=["C17"],
         params={"key": "key", "hashes": "list[int]", "num_els": "int"}, returns="int",
         requires=_HREQ + [("positive_amount", "num_els >= 1"), ("min_mode", "is_min_mode(self)"),
                           ("size_is_table_size", f"{SZ} == len({TOP})"), ("at_least_one_hitter", f"{NH} >= 1")],
         modifies=["self._bins", "self._CountMinSketch__elements_added", TOP, SZ, SM],
         ensures=[("estimate_is_the_sketch_estimate", _RESULT_MIN),
                  ("one_counter_per_row_saturating_add",
                   _TOUCHED.format(upd="clamp32(old(self._bins[" + _IDX.format(j="j") + "]) + num_els)", rows="cd(self)")),
                  ("all_other_counters_unchanged", _OTHERS.format(rows="cd(self)")),
                  ("room_left_key_is_tracked",
                   f"implies(old({SZ}) < {NH}, {TOP} == {_HH_T1} and {SZ} == len({TOP}) and {SM} == old({SM}))"),
                  ("tracked_key_is_updated",
                   f"implies(old({SZ}) >= {NH} and (key in old({TOP})), {TOP} == {_HH_T1} and {SZ} == old({SZ}) and {SM} == old({SM}))"),
                  ("heavier_key_replaces_a_minimal_one",
                   f"implies(old({SZ}) >= {NH} and not (key in old({TOP})) and result > old({SM}), "
                   f"{SZ} == old({SZ}) and len({TOP}) == old(len({TOP})) and "
                   f"any((k in {_HH_T1}) and {TOP} == rem({_HH_T1}, k) and "
                   f"all(implies(k2 in {_HH_T1}, {_HH_T1}[k] <= {_HH_T1}[k2]) for k2 in allkeys({TOP}, old({TOP}))) "
                   f"for k in allkeys({TOP}, {_HH_T1})) and "
                   f"all(implies(k2 in {TOP}, {SM} <= {TOP}[k2]) for k2 in allkeys({TOP})) and "
                   f"any((k in {TOP}) and {TOP}[k] == {SM} for k in allkeys({TOP})))"),
                  ("lighter_key_is_ignored",
                   f"implies(old({SZ}) >= {NH} and not (key in old({TOP})) and result <= old({SM}), "
                   f"{TOP} == old({TOP}) and {SZ} == old({SZ}) and {SM} == old({SM}))"),
                  ("inv", "inv_cms(self)")])

THR = "self._StreamThreshold__threshold"
MT = "self._StreamThreshold__meets_threshold"

# clear() (C19): the base body reached through super().clear(), then the tables of the subclasses
for _r in ("HeavyHitters", "StreamThreshold"):
    clone_contract("CountMinSketch.clear", f"CountMinSketch.clear@{_r}", contexts=[_r], properties=["C19"])
_CLEARED = [("total_zero", "ctotal(self) == 0"),
            ("cells_zero", "all(self._bins[x] == 0 for x in range(0, cw(self) * cd(self)))"), ("inv", "inv_cms(self)")]
contract("HeavyHitters.clear", contexts=["HeavyHitters"], properties=["C19", "C17"],
         requires=["inv_cms(self)"], modifies=["self._bins", "self._CountMinSketch__elements_added", TOP, SZ, SM],
         ensures=_CLEARED + [("table_as_after_construction",
                              f"len({TOP}) == 0 and {SZ} == 0 and {SM} == 0 and all(not (k in {TOP}) for k in allkeys({TOP}))")])
contract("StreamThreshold.clear", contexts=["StreamThreshold"], properties=["C19", "C17"],
         requires=["inv_cms(self)"], modifies=["self._bins", "self._CountMinSketch__elements_added", MT],
         ensures=_CLEARED + [("table_as_after_construction", f"len({MT}) == 0 and all(not (k in {MT}) for k in allkeys({MT}))")])
contract("StreamThreshold.__init__", contexts=["StreamThreshold"], properties=["C17"],
         params=dict(_INIT_PARAMS, threshold="int"), requires=_INIT_REQ, raises=_INIT_RAISES_CMS, modifies=["self"],
         ensures=_INIT_ENS + [("min_mode", "is_min_mode(self)"), ("inv", "inv_cms(self)"),
                              ("empty_table", f"len({MT}) == 0 and {THR} == threshold and "
                                              f"all(not (k in {MT}) for k in allkeys({MT}))")])

_ST_TABLE = f"{MT} == (upd(old({MT}), key, result) if result >= {THR} else rem(old({MT}), key))"
contract("StreamThreshold.add_alt", contexts=["StreamThreshold"], properties=["C17"],
         params={"key": "key", "hashes": "list[int]", "num_els": "int"}, returns="int",
         requires=_HREQ + [("positive_amount", "num_els >= 1"), ("min_mode", "is_min_mode(self)")],
         modifies=["self._bins", "self._CountMinSketch__elements_added", MT],
         ensures=[("estimate_is_the_sketch_estimate", _RESULT_MIN),
                  ("table_holds_key_iff_estimate_meets_threshold", _ST_TABLE), ("inv", "inv_cms(self)")])

contract("StreamThreshold.remove_alt", contexts=["StreamThreshold"], properties=["C17"],
         params={"key": "key", "hashes": "list[int]", "num_els": "int"}, returns="int",
         requires=_HREQ + [("positive_amount", "num_els >= 1"), ("min_mode", "is_min_mode(self)")],
         modifies=["self._bins", "self._CountMinSketch__elements_added", MT],
         ensures=[("estimate_is_the_sketch_estimate", _RESULT_MIN),
                  ("table_holds_key_iff_estimate_meets_threshold", _ST_TABLE), ("inv", "inv_cms(self)")])

for _r, _m in (("CountMeanSketch", "mean"), ("CountMeanMinSketch", "mean-min")):
    contract(f"{_r}.__init__", contexts=[_r], properties=["C05", "C07"],
             params=_INIT_PARAMS, requires=_INIT_REQ, raises=_INIT_RAISES_CMS, modifies=["self"],
             ensures=_INIT_ENS + [("mode", f"mode_of(self) == default_mode(self)"), ("size_ok", "len(self._bins) == cw(self) * cd(self)"),
                                  ("valid", "valid_query_mode(self)")])
CONTRACTS["CountMinSketch.query_type.setter"].contexts += ["CountMeanSketch", "CountMeanMinSketch"]
