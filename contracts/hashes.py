"""C18 - probables.hashes"""
from pyvc.api import contract

M = "probables.hashes."

contract(M + "fnv_1a", kind="function", properties=["C18", "C06"],
         params={"key": "key", "seed": "int"}, returns="int",
         modifies=[],
         ensures=[("reference_fnv1a_64", "result == fnv64(key_units(key), len(key_units(key)), seed)"),
                  ("uint64", "0 <= result < 2**64")],
         loops={0: {"invariant": [("hval_is_spec_prefix", "hval == fnv64(tmp, _i, seed)"),
                                  ("tmp_is_units", "len(tmp) == len(key_units(key)) and "
                                                   "all(tmp[j] == key_units(key)[j] for j in range(0, len(tmp)))")]}})

contract(M + "fnv_1a_32", kind="function", properties=["C18"],
         params={"key": "key", "seed": "int"}, returns="int",
         modifies=[],
         ensures=[("reference_fnv1a_32", "result == fnv32(key_units(key), len(key_units(key)), seed)"),
                  ("uint32", "0 <= result < 2**32")],
         loops={0: {"invariant": [("hval_is_spec_prefix", "hval == fnv32(tmp, _i, seed)"),
                                  ("tmp_is_units", "len(tmp) == len(key_units(key)) and "
                                                   "all(tmp[j] == key_units(key)[j] for j in range(0, len(tmp)))")]}})

contract(M + "default_fnv_1a", kind="function", properties=["C18", "C06"],
         params={"key": "key", "depth": "int"}, returns="list[int]",
         modifies=[], pure=True,
         ensures=[("exactly_depth_values", "len(result) == (depth if depth > 0 else 0)"),
                  ("element_j_is_fnv_seed_j", "all(result[j] == fnv64(key_units(key), len(key_units(key)), j) "
                                              "for j in range(0, len(result)))"),
                  ("uint64", "all(0 <= result[j] < 2**64 for j in range(0, len(result)))")],
         loops={0: {"invariant": [("len", "len(res) == _i"),
                                  ("prefix", "all(res[j] == fnv64(key_units(key), len(key_units(key)), j) "
                                             "for j in range(0, _i))"),
                                  ("uint64", "all(0 <= res[j] < 2**64 for j in range(0, _i))")]}})

contract(M + "hash_with_depth_bytes.hashing_func", kind="function", properties=["C18"],
         params={"key": "key", "depth": "int"}, ghost={"func": "bytesfunc"}, returns="list[int]",
         modifies=[], pure=True,
         ensures=[("exactly_depth_values", "len(result) == (depth if depth > 0 else 0)"),
                  ("element_j_is_chain_j", "all(result[j] == le64(chain_blob(func, start_bytes(key), j)) "
                                           "for j in range(0, len(result)))"),
                  ("uint64", "all(0 <= result[j] < 2**64 for j in range(0, len(result)))")],
         loops={0: {"invariant": [("len", "len(res) == _i"),
                                  ("tmp0", "implies(_i == 0, tmp == start_bytes(key))"),
                                  ("tmp", "implies(_i > 0, tmp == chain_blob(func, start_bytes(key), _i - 1))"),
                                  ("prefix", "all(res[j] == le64(chain_blob(func, start_bytes(key), j)) "
                                             "for j in range(0, _i))"),
                                  ("uint64", "all(0 <= res[j] < 2**64 for j in range(0, _i))")]}})

contract(M + "hash_with_depth_int.hashing_func", kind="function", properties=["C18"],
         params={"key": "key", "depth": "int"}, ghost={"func": "intfunc"}, returns="list[int]",
         requires=[("depth_at_least_1", "depth >= 1")],
         modifies=[], pure=True,
         ensures=[("exactly_depth_values", "len(result) == depth"),
                  ("element_j_is_chain_j", "all(result[j] == chain_int(func, key, j) for j in range(0, len(result)))")],
         loops={0: {"invariant": [("len", "len(res) == _i + 1"),
                                  ("tmp", "tmp == chain_int(func, key, _i)"),
                                  ("prefix", "all(res[j] == chain_int(func, key, j) for j in range(0, _i + 1))")]}})

contract(M + "default_md5", kind="function", properties=["C18"],
         params={"key": "key"}, returns="key",
         requires=[("bytes_argument", "not isinstance(key, str)")],
         modifies=[],
         ensures=[("is_md5_of_the_bytes", "result == md5_digest(key)"), ("sixteen_bytes", "len(result) == 16")],
         decorators=["hash_with_depth_bytes"],
         note="the undecorated body; the decorator is covered by hash_with_depth_bytes.hashing_func")

contract(M + "default_sha256", kind="function", properties=["C18"],
         params={"key": "key"}, returns="key",
         requires=[("bytes_argument", "not isinstance(key, str)")],
         modifies=[],
         ensures=[("is_sha256_of_the_bytes", "result == sha256_digest(key)"), ("thirtytwo_bytes", "len(result) == 32")],
         decorators=["hash_with_depth_bytes"],
         note="the undecorated body; the decorator is covered by hash_with_depth_bytes.hashing_func")
