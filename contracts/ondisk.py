"""BloomFilterOnDisk (C11, C01, C14, C19)"""
from pyvc.api import CLASSES, classinfo, clone_contract, contract
from .bloom import BLOOM_FIELDS, _BITS_AFTER_ADD


_FOOTER_REST_SAME = ("all(self._bloom[b] == old(self._bloom[b]) for b in range(self._bloom_length, self._bloom_length + 8))"
                     " and all(self._bloom[b] == old(self._bloom[b]) for b in range(self._bloom_length + 16, "
                     "self._bloom_length + 20))")
_COUNT_FIELD = "le_bytes(self._bloom, self._bloom_length + 8, 8)"
_NO_PENDING = "not self._BloomFilterOnDisk__file_pointer.haspend"

_FILE_OK = [("file_stays_a_valid_current_export", "file_ok(self, old(self._bloom), count0)")]
_IN_FLIGHT = ("recorded_count_lags_by_at_most_the_addition_in_flight",
              "self._els_added == count0 or self._els_added == count0 + 1")

contract("BloomFilterOnDisk.__update", contexts=["BloomFilterOnDisk"], properties=["C11", "C14", "C01", "C05"],
         let=[("count0", "le_bytes(self._bloom, self._bloom_length + 8, 8)")],
         requires=["inv_bloom_disk(self)", "fp_open(self)", ("nothing_buffered", _NO_PENDING),
                   ("count_fits_uint64", "0 <= self._els_added < 2**64")],
         pointwise=_FILE_OK,
         modifies=["self._bloom", "self._BloomFilterOnDisk__file_pointer"],
         ensures=[("recorded_count_is_current", _COUNT_FIELD + " == self._els_added"),
                  ("cells_untouched", "all(self._bloom[b] == old(self._bloom[b]) for b in range(0, self._bloom_length))"),
                  ("rest_of_footer_untouched", _FOOTER_REST_SAME),
                  ("size_kept", "len(self._bloom) == old(len(self._bloom))"),
                  ("still_open_nothing_buffered", "fp_open(self) and " + _NO_PENDING)])

# the base-class body reached through super().add_alt() with an on-disk receiver
clone_contract("BloomFilter.add_alt", "BloomFilter.add_alt@BloomFilterOnDisk", contexts=["BloomFilterOnDisk"],
               properties=["C11", "C01", "C05"],
               let=[("count0", "le_bytes(self._bloom, self._bloom_length + 8, 8)")],
               requires=["inv_bloom_disk(self)", ("enough_hashes", "len(hashes) >= self._number_hashes"),
                         ("file_is_current", "self._els_added == count0")],
               pointwise=[("file_stays_a_valid_current_export", "file_ok(self, old(self._bloom), count0)"),
                          ("recorded_count_lags_by_at_most_the_addition_in_flight",
                           "self._els_added == count0 or self._els_added == count0 + 1")])

contract("BloomFilterOnDisk.add_alt", contexts=["BloomFilterOnDisk"], properties=["C11", "C01", "C14", "C05"],
         params={"hashes": "list[int]"},
         let=[("count0", "le_bytes(self._bloom, self._bloom_length + 8, 8)")],
         requires=["inv_bloom_disk(self)", "fp_open(self)", ("nothing_buffered", _NO_PENDING),
                   ("enough_hashes", "len(hashes) >= self._number_hashes"),
                   ("count_fits_uint64", "0 <= self._els_added < 2**64 - 1"),
                   ("file_is_current", "self._els_added == count0")],
         pointwise=_FILE_OK + [_IN_FLIGHT],
         modifies=["self._bloom", "self._els_added", "self._BloomFilterOnDisk__file_pointer"],
         ensures=[("bits_exactly_or_of_positions", _BITS_AFTER_ADD.format(n="self._number_hashes")),
                  ("counter_plus_one", "self._els_added == old(self._els_added) + 1"),
                  ("recorded_count_is_current", _COUNT_FIELD + " == self._els_added"),
                  ("rest_of_footer_untouched", _FOOTER_REST_SAME),
                  ("inv", "inv_bloom_disk(self)"), ("still_open_nothing_buffered", "fp_open(self) and " + _NO_PENDING)])

FP = "self._BloomFilterOnDisk__file_pointer"
_LOADED_DISK = [("estimated_elements", "self._est_elements == le_bytes(old(file_bytes(file)), len(old(file_bytes(file))) - 20, 8)"),
                ("rate", "self._fpr == f32_at(old(file_bytes(file)), len(old(file_bytes(file))) - 4)"),
                ("geometry", "geo_bloom(self)"), ("inv", "inv_bloom_disk(self)"),
                ("the_mapping_is_the_file", "len(self._bloom) == len(old(file_bytes(file))) and "
                                            "all(self._bloom[i] == old(file_bytes(file))[i] for i in range(0, len(self._bloom)))"),
                ("stored_count_is_restored", "self._els_added == le_bytes(old(file_bytes(file)), len(old(file_bytes(file))) - 12, 8)"),
                ("open_nothing_buffered", "fp_open(self) and " + _NO_PENDING),
                ("on_disk", "self._on_disk == True")]

contract("BloomFilterOnDisk._load", contexts=["BloomFilterOnDisk"], properties=["C11", "C05", "C14", "C01"],
         params={"file": "key", "hash_function": "opt[hashfunc]"},
         requires=[("resolved_path", "file == resolve(file)"), ("file_is_there", "file_exists(file)"),
                   ("well_formed_export", "disk_footer_ok(file_bytes(file))"),
                   ("byte_cells", "self._typecode == 'B' and self._bits_per_elm == 8.0")],
         modifies=["self._est_elements", "self._fpr", "self._bloom_length", "self._hash_func", "self._els_added",
                   "self._number_hashes", "self._num_bits", "self._bloom", FP, "self._on_disk"],
         ensures=_LOADED_DISK)

contract("BloomFilterOnDisk.close", contexts=["BloomFilterOnDisk"], properties=["C11", "C14"],
         let=[("count0", "le_bytes(self._bloom, self._bloom_length + 8, 8)"), ("was_open", "fp_open(self)")],
         requires=["inv_bloom_disk(self)", ("nothing_buffered", "implies(fp_open(self), " + _NO_PENDING + ")"),
                   ("count_fits_uint64", "0 <= self._els_added < 2**64")],
         modifies=["self._bloom", FP, "fs"], pointwise=_FILE_OK,
         ensures=[("file_holds_the_mapped_bytes_with_the_current_count",
                   "implies(was_open, len(file_bytes(self._filepath)) == old(len(self._bloom)) and "
                   "le_bytes(file_bytes(self._filepath), self._bloom_length + 8, 8) == self._els_added and "
                   "all(file_bytes(self._filepath)[i] == old(self._bloom[i]) for i in range(0, self._bloom_length + 8)) and "
                   "all(file_bytes(self._filepath)[i] == old(self._bloom[i]) for i in range(self._bloom_length + 16, self._bloom_length + 20)))"),
                  ("file_exists", "implies(was_open, file_exists(self._filepath))"),
                  ("closed", "implies(was_open, " + FP + " is None)"),
                  ("closing_twice_is_harmless", "implies(not was_open, same(self._bloom, old(self._bloom)))")])

contract("BloomFilterOnDisk.clear", contexts=["BloomFilterOnDisk"], properties=["C19", "C11", "C05"],
         requires=["inv_bloom_disk(self)", "fp_open(self)", ("nothing_buffered", _NO_PENDING)],
         modifies=["self._bloom", "self._els_added", FP],
         ensures=[("counter_zero", "self._els_added == 0"),
                  ("cells_zero", "all(self._bloom[b] == 0 for b in range(0, self._bloom_length))"),
                  ("recorded_count_is_current", _COUNT_FIELD + " == 0"),
                  ("rest_of_footer_untouched", _FOOTER_REST_SAME),
                  ("inv", "inv_bloom_disk(self)"), ("still_open_nothing_buffered", "fp_open(self) and " + _NO_PENDING)])

clone_contract("BloomFilter.clear", "BloomFilter.clear@BloomFilterOnDisk", contexts=["BloomFilterOnDisk"], properties=["C19", "C11", "C05"])

_DISK_MOD = ["self._est_elements", "self._fpr", "self._bloom_length", "self._hash_func", "self._els_added",
             "self._number_hashes", "self._num_bits", "self._bloom", FP, "self._on_disk", "self._type"]
_CREATE = "(est_elements is not None and false_positive_rate is not None)"
_DISK_INIT_REQ = [("resolved_path", "self._filepath == resolve(self._filepath)"),
                  ("byte_cells", "self._typecode == 'B' and self._bits_per_elm == 8.0"),
                  ("new_geometry_usable",
                   "implies(" + _CREATE + ", est_elements >= 1 and 0 < false_positive_rate < 1 and 0 < f32(false_positive_rate) < 1 and "
                   "est_elements < 2**64 and bloom_k(est_elements, bloom_m(est_elements, f32(false_positive_rate))) >= 1 and "
                   "bloom_m(est_elements, f32(false_positive_rate)) < 2**53)"),
                  ("existing_file_is_an_export",
                   "implies(not " + _CREATE + ", file_exists(self._filepath) and disk_footer_ok(file_bytes(self._filepath)))")]
_DISK_INIT_ENS = [
    ("new_filter_is_empty", "implies(" + _CREATE + ", self._els_added == 0 and self._est_elements == est_elements and "
                            "self._fpr == f32(false_positive_rate) and all(self._bloom[i] == 0 for i in range(0, self._bloom_length)))"),
    ("reopened_filter_is_the_file",
     "implies(not " + _CREATE + ", len(self._bloom) == len(old(file_bytes(self._filepath))) and "
     "all(self._bloom[i] == old(file_bytes(self._filepath))[i] for i in range(0, len(self._bloom))) and "
     "self._els_added == le_bytes(old(file_bytes(self._filepath)), len(self._bloom) - 12, 8) and "
     "self._est_elements == le_bytes(old(file_bytes(self._filepath)), len(self._bloom) - 20, 8) and "
     "self._fpr == f32_at(old(file_bytes(self._filepath)), len(self._bloom) - 4))"),
    ("consistent", "disk_consistent(self)"),
    ("recorded_count_is_current", _COUNT_FIELD + " == self._els_added"),
    ("open_nothing_buffered", "fp_open(self) and " + _NO_PENDING)]

contract("BloomFilterOnDisk._load_init", contexts=["BloomFilterOnDisk"], properties=["C11", "C14", "C05"],
         params={"filepath": "key", "hash_function": "opt[hashfunc]", "hex_string": "none",
                 "est_elements": "opt[int]", "false_positive_rate": "opt[float]"},
         requires=_DISK_INIT_REQ, modifies=_DISK_MOD + ["fs"], ensures=_DISK_INIT_ENS)

_INIT_P = {"est_elements": "opt[int]", "false_positive_rate": "opt[float]", "filepath": "key", "hex_string": "none",
           "hash_function": "opt[hashfunc]"}
# BloomFilter.__init__ body run with an on-disk receiver (super().__init__ from BloomFilterOnDisk.__init__)
contract("BloomFilter.__init__@BloomFilterOnDisk", contexts=["BloomFilterOnDisk"], properties=["C11"],
         params=_INIT_P,
         requires=[("resolved_path", "self._filepath == resolve(self._filepath)")] + _DISK_INIT_REQ[2:],
         modifies=["self", "fs"], ensures=_DISK_INIT_ENS + [("path_kept", "self._filepath == old(self._filepath)")])

contract("BloomFilterOnDisk.__init__", contexts=["BloomFilterOnDisk"], properties=["C11", "C14", "C05"],
         params=_INIT_P,
         requires=[("new_geometry_usable", _DISK_INIT_REQ[2][1]),
                   ("existing_file_is_an_export",
                    "implies(not " + _CREATE + ", file_exists(resolve(filepath)) and disk_footer_ok(file_bytes(resolve(filepath))))")],
         modifies=["self", "fs"],
         ensures=[(n, t.replace("self._filepath", "resolve(filepath)")) for n, t in _DISK_INIT_ENS]
         + [("path", "self._filepath == resolve(filepath)")])

contract("BloomFilterOnDisk.__bytes__", contexts=["BloomFilterOnDisk"], properties=["C05", "C11", "C19"],
         returns="bytes", requires=["inv_bloom_disk(self)", ("file_is_current", _COUNT_FIELD + " == self._els_added")], modifies=[],
         ensures=[("the_mapped_file", "len(result) == len(self._bloom) and all(result[i] == self._bloom[i] for i in range(0, len(result)))"),
                  # C05: the bytes channel carries the same payload as export(): the live element count, not a stale one
                  ("payload_carries_the_live_count", "le_bytes(result, self._bloom_length + 8, 8) == self._els_added")])

contract("BloomFilterOnDisk.export", contexts=["BloomFilterOnDisk"], properties=["C11", "C05", "C19"],
         params={"file": "key"}, let=[("count0", "le_bytes(self._bloom, self._bloom_length + 8, 8)")],
         requires=["inv_bloom_disk(self)", "fp_open(self)", ("nothing_buffered", _NO_PENDING),
                   ("count_fits_uint64", "0 <= self._els_added < 2**64")],
         modifies=["self._bloom", FP, "fs"], pointwise=_FILE_OK,
         ensures=[("recorded_count_is_current", _COUNT_FIELD + " == self._els_added"),
                  ("cells_untouched", "all(self._bloom[b] == old(self._bloom[b]) for b in range(0, self._bloom_length))"),
                  ("rest_of_footer_untouched", _FOOTER_REST_SAME),
                  ("copy_is_the_current_export",
                   "implies(file != '' and file != self._filepath, len(file_bytes(file)) == len(self._bloom) and "
                   "all(file_bytes(file)[i] == self._bloom[i] for i in range(0, len(self._bloom))))"),
                  ("still_open_nothing_buffered", "fp_open(self) and " + _NO_PENDING)])
