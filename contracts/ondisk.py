"""BloomFilterOnDisk (C11, C01, C14, C19)"""
from pyvc.api import CLASSES, classinfo, clone_contract, contract
from .bloom import BLOOM_FIELDS, _BITS_AFTER_ADD


_FOOTER_REST_SAME = ("all(self._bloom[b] == old(self._bloom[b]) for b in range(self._bloom_length, self._bloom_length + 8))"
                     " and all(self._bloom[b] == old(self._bloom[b]) for b in range(self._bloom_length + 16, "
                     "self._bloom_length + 20))")
_COUNT_FIELD = "le_bytes(self._bloom, self._bloom_length + 8, 8)"
_NO_PENDING = "not self._BloomFilterOnDisk__file_pointer.haspend"

contract("BloomFilterOnDisk.__update", contexts=["BloomFilterOnDisk"], properties=["C11", "C14", "C01"],
         requires=["inv_bloom_disk(self)", "fp_open(self)", ("nothing_buffered", _NO_PENDING),
                   ("count_fits_uint64", "0 <= self._els_added < 2**64")],
         modifies=["self._bloom", "self._BloomFilterOnDisk__file_pointer"],
         ensures=[("recorded_count_is_current", _COUNT_FIELD + " == self._els_added"),
                  ("cells_untouched", "all(self._bloom[b] == old(self._bloom[b]) for b in range(0, self._bloom_length))"),
                  ("rest_of_footer_untouched", _FOOTER_REST_SAME),
                  ("size_kept", "len(self._bloom) == old(len(self._bloom))"),
                  ("still_open_nothing_buffered", "fp_open(self) and " + _NO_PENDING)])

# the base-class body reached through super().add_alt() with an on-disk receiver
clone_contract("BloomFilter.add_alt", "BloomFilter.add_alt@BloomFilterOnDisk", contexts=["BloomFilterOnDisk"],
               properties=["C11", "C01"])

contract("BloomFilterOnDisk.add_alt", contexts=["BloomFilterOnDisk"], properties=["C11", "C01", "C14"],
         params={"hashes": "list[int]"},
         requires=["inv_bloom_disk(self)", "fp_open(self)", ("nothing_buffered", _NO_PENDING),
                   ("enough_hashes", "len(hashes) >= self._number_hashes"),
                   ("count_fits_uint64", "0 <= self._els_added < 2**64 - 1")],
         modifies=["self._bloom", "self._els_added", "self._BloomFilterOnDisk__file_pointer"],
         ensures=[("bits_exactly_or_of_positions", _BITS_AFTER_ADD.format(n="self._number_hashes")),
                  ("counter_plus_one", "self._els_added == old(self._els_added) + 1"),
                  ("recorded_count_is_current", _COUNT_FIELD + " == self._els_added"),
                  ("rest_of_footer_untouched", _FOOTER_REST_SAME),
                  ("inv", "inv_bloom_disk(self)"), ("still_open_nothing_buffered", "fp_open(self) and " + _NO_PENDING)])
