"""regenerate MANIFEST.json from contracts.LEVELS / the list of claimed properties"""
import json, sys
sys.path.insert(0, '/verif')
import contracts
props = [json.loads(l) for l in open('/verif/properties.jsonl')]
CLAIMED = contracts.CLAIMED
checks = []
na = []
for p in props:
    pid = p['id']
    if pid in CLAIMED:
        m = CLAIMED[pid]
        checks.append({
            "property_id": pid,
            "quick_cmd": f"python3-vt /verif/check.py --property {pid} --tier quick",
            "thorough_cmd": f"python3-vt /verif/check.py --property {pid} --tier thorough",
            "evidence_file": f"/verif/evidence/{pid}.json",
            "replay_cmd_template": "python3-vt /verif/check.py --replay {path}",
            "engine": "pyvc",
            "level_claimed": {"category": m["category"], "text": m["text"], "design_ref": m.get("design_ref", "DESIGN.md section 6 " + pid)},
            "level_note": m["note"],
            "technique": m["technique"],
        })
    else:
        na.append({"property_id": pid, "reason": contracts.NOT_APPLICABLE.get(pid, "machinery for this property not built yet (DESIGN.md section 10 gives the order of work)")})
man = {
 "version": 1,
 "setup_cmd": "cd /verif && python3-vt -m compileall -q pyvc contracts lemmas bounded check.py && python3-vt -c 'import z3; import sys; sys.path.insert(0, \"/verif\"); import contracts, lemmas' && /venv/bin/python -c 'import probables'",
 "hooks": {"guard": "PYPROBABLES_VERIF", "enable": "no source hooks are needed: contracts are sidecar files under /verif/contracts keyed by qualified function name and loop ordinal; every check parses /repo's working tree itself", "baseline_off_cmd": "cd /repo && /venv/bin/python -m pytest -ra -q -p no:cacheprovider --timeout=900 --continue-on-collection-errors", "source_commits": [], "add_only": True},
 "engines": [{"name": "pyvc", "path": "/verif/pyvc", "serves_properties": sorted(CLAIMED), "kind_free_text": "contract-based deductive verification: weakest-precondition / symbolic-execution VC generator over the Python AST of the real source with sidecar contracts and loop invariants, discharged by z3 5.1 (portfolio: z3 4.8.12, cvc5); native small-scope replay of the real code under /venv/bin/python for counterexamples and labelled bounded stand-ins"}],
 "checks": checks,
 "notes": "exit codes of check.py: 0 held, 1 VIOLATION, 2 undecided (outside the verifier's subset, no stand-in), 3 checker error",
 "not_applicable": na,
}
json.dump(man, open('/verif/MANIFEST.json', 'w'), indent=1)
import jsonschema
jsonschema.validate(man, json.load(open('/root/.vp/MANIFEST.schema.json')))
print("MANIFEST ok:", len(checks), "checks,", len(na), "not applicable")
