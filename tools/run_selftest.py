"""apply each mutant / refactoring of selftest/mutations.py to a scratch copy of /repo (under /tmp, removed
afterwards) and run the property's check against it.  usage: selftest.py [name-substring ...]"""
import json, os, shutil, subprocess, sys, tempfile, time
sys.path.insert(0, '/verif')
from selftest.mutations import MUTANTS, REFACTORINGS

def run(name, prop, rel, old, new, expect_violation):
    d = tempfile.mkdtemp(prefix="pyvc-scratch-")
    try:
        subprocess.run(["rsync", "-a", "--exclude", ".git", "/repo/", d + "/"], check=True)
        p = os.path.join(d, rel)
        s = open(p).read()
        if s.count(old) != 1:
            return name, prop, "PATCH-DOES-NOT-APPLY", 0
        open(p, "w").write(s.replace(old, new))
        t = subprocess.run(["/venv/bin/python", "-m", "pytest", "-q", "-x", "-p", "no:cacheprovider", "--timeout=900"],
                           cwd=d, env=dict(os.environ, PYTHONPATH=d), capture_output=True, text=True)
        tests = "tests-pass" if t.returncode == 0 else "tests-FAIL"
        t0 = time.time()
        c = subprocess.run(["python3-vt", "/verif/check.py", "--property", prop], env=dict(os.environ, PYVC_REPO=d),
                           capture_output=True, text=True, cwd="/verif")
        lines = [l for l in c.stdout.splitlines() if l.startswith(("VIOLATION", "CHECKER", "UNDECIDED"))]
        verdict = {0: "held", 1: "VIOLATION", 2: "undecided", 3: "checker-error"}.get(c.returncode, str(c.returncode))
        ok = (verdict == "VIOLATION") == expect_violation and verdict not in ("checker-error",)
        return name, prop, f"{'OK ' if ok else 'MISS'} {verdict} {tests} {time.time()-t0:.0f}s " + " | ".join(l[:160] for l in lines[:2]), ok
    finally:
        shutil.rmtree(d, ignore_errors=True)
        shutil.rmtree(f"/verif/replays/{prop}", ignore_errors=True)

if __name__ == "__main__":
    sel = sys.argv[1:]
    res = []
    for (kind, lst) in (("mutant", MUTANTS), ("refactoring", REFACTORINGS)):
        for name, prop, rel, old, new in lst:
            if sel and not any(s in name for s in sel):
                continue
            r = run(name, prop, rel, old, new, kind == "mutant")
            print(kind, *r[:3], flush=True)
            res.append(r)
    print("missed:", [r[0] for r in res if not r[3]])
