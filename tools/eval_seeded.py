"""confirm a seeded change (patch.diff, demo.py, meta.json in a directory) and run the property's check against it.

usage: eval_seeded.py [--checks C01,C13] [--quick|--thorough] DIR [DIR ...]

Everything happens on a scratch copy of /repo under /tmp that is removed afterwards (checks are pointed at the scratch
tree with PYVC_REPO, their evidence and replay files go to the scratch output directory PYVC_OUT):
  1. the patch applies, 2. the repository's test suite passes with it, 3. the demonstration exits 1 with it and
  0 without, 4. the check of the property (or of the listed properties) reports VIOLATION (exit 1).
Prints one JSON line per directory."""
import json, os, shutil, subprocess, sys, tempfile, time
from concurrent.futures import ThreadPoolExecutor


def sh(cmd, **kw):
    return subprocess.run(cmd, capture_output=True, text=True, **kw)


def evaluate(d, checks=None, tier="quick"):
    meta = json.load(open(os.path.join(d, "meta.json")))
    prop = meta["property"]
    out = {"dir": d, "property": prop}
    scratch = tempfile.mkdtemp(prefix="pyvc-seeded-")
    outdir = tempfile.mkdtemp(prefix="pyvc-seeded-out-")
    try:
        sh(["rsync", "-a", "--exclude", ".git", "--exclude", "__pycache__", "/repo/", scratch + "/"], check=True)
        # (TMPDIR: whatever a demonstration leaves behind is removed together with the scratch output directory)
        env0 = dict(os.environ, PYTHONPATH="/repo", PYTHONDONTWRITEBYTECODE="1", TMPDIR=outdir)
        env1 = dict(os.environ, PYTHONPATH=scratch, PYTHONDONTWRITEBYTECODE="1", TMPDIR=outdir)
        demo = os.path.abspath(os.path.join(d, "demo.py"))
        has_demo = os.path.exists(demo)      # behaviour-preserving edits (expected verdict: held) come without one
        if has_demo:
            r = sh(["/venv/bin/python", demo], env=env0, cwd=outdir, timeout=900)
            out["demo_without"] = r.returncode
        a = sh(["git", "apply", os.path.abspath(os.path.join(d, "patch.diff"))], cwd=scratch)
        out["applies"] = a.returncode == 0
        if not out["applies"]:
            out["error"] = a.stderr[-300:]
            return out
        t = sh(["/venv/bin/python", "-m", "pytest", "-q", "-p", "no:cacheprovider", "--timeout=900"], cwd=scratch, env=env1)
        out["tests"] = t.stdout.strip().splitlines()[-1] if t.stdout.strip() else t.stderr[-200:]
        out["tests_pass"] = t.returncode == 0
        if has_demo:
            r = sh(["/venv/bin/python", demo], env=env1, cwd=outdir, timeout=900)
            out["demo_with"] = r.returncode
            out["demo_output"] = (r.stdout + r.stderr).strip()[-400:]
            out["confirmed"] = out["tests_pass"] and out["demo_with"] == 1 and out["demo_without"] == 0
        else:
            out["confirmed"] = out["tests_pass"]
        out["checks"] = {}
        for p in (checks or [prop]):
            t0 = time.time()
            c = sh(["python3-vt", "/verif/check.py", "--property", p] + (["--tier", "thorough"] if tier == "thorough" else []),
                   env=dict(os.environ, PYVC_REPO=scratch, PYVC_OUT=outdir), cwd="/verif")
            lines = [l for l in c.stdout.splitlines() if l.startswith(("VIOLATION", "CHECKER", "UNDECIDED", "KNOWN"))]
            out["checks"][p] = {"exit": c.returncode, "seconds": round(time.time() - t0), "lines": [l[:300] for l in lines[:6]]}
        out["caught"] = any(v["exit"] == 1 for v in out["checks"].values())
        out["all_held"] = all(v["exit"] == 0 for v in out["checks"].values())
        return out
    finally:
        shutil.rmtree(scratch, ignore_errors=True)
        shutil.rmtree(outdir, ignore_errors=True)


if __name__ == "__main__":
    args = sys.argv[1:]
    checks, tier, jobs = None, "quick", 3
    dirs = []
    while args:
        a = args.pop(0)
        if a == "--checks":
            checks = args.pop(0).split(",")
        elif a == "--thorough":
            tier = "thorough"
        elif a == "--jobs":
            jobs = int(args.pop(0))
        else:
            dirs.append(a)
    with ThreadPoolExecutor(jobs) as ex:
        for res in ex.map(lambda d: evaluate(d, checks, tier), dirs):
            print(json.dumps(res), flush=True)
