#!/bin/bash
# usage: mut.sh <file-rel> <python-regex-old> <new> -- keys...   (scratch copy under /tmp, removed afterwards)
set -e
D=$(mktemp -d /tmp/pyvc-scratch-XXXX)
rsync -a --exclude .git /repo/ $D/
F=$1; OLD=$2; NEW=$3; shift 3
python3 - "$D/$F" "$OLD" "$NEW" <<'PY'
import sys,re
p,old,new=sys.argv[1:4]
s=open(p).read()
assert old in s, "pattern not found"
s=s.replace(old,new,1)
open(p,'w').write(s)
PY
PYVC_REPO=$D python3-vt /verif/tools/try.py "$@" || true
rm -rf $D
