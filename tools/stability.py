"""stability sweep: every contract (each receiver class) is verified under several fresh-name offsets - the names z3
sees depend on what a worker verified before, and a proof that only works for some of them is a false alarm waiting to
happen.  Prints the obligations that were not discharged or needed more than 5 s under some offset.

usage: python3-vt tools/stability.py [key-substring]"""
import ast, itertools, os, sys, time
sys.path.insert(0, os.path.join(os.path.dirname(os.path.abspath(__file__)), ".."))
OFFSETS = [3, 500, 9999, 31337, 77777, 424242]


def work(item):
    key, ctx = item
    from pyvc import runner, values
    if runner._ENG is None:
        runner._init(worker=False)
    out = []
    for off in OFFSETS:
        values._fresh_counter = itertools.count(off)
        r = runner._work((key, ctx, None, 20000, False))       # the whole pipeline of a check, portfolio included
        if r["error"]:
            out.append((key, ctx, off, "error", r["error"][-200:]))
            continue
        if r["unsupported"]:
            continue
        for o in r["obligations"]:
            if o["status"] != "proved" or o["time"] > 5:
                out.append((key, ctx, off, o["status"], o["name"].split(".", 2)[-1], o["time"], o["backend"]))
    return out


if __name__ == "__main__":
    import contracts, lemmas  # noqa: F401
    from pyvc.api import CONTRACTS, LEMMAS
    from concurrent.futures import ProcessPoolExecutor
    sub = sys.argv[1] if len(sys.argv) > 1 else ""
    items = [(k, c) for k, ct in CONTRACTS.items() if sub in k and not ct.trusted for c in (ct.contexts or [None])]
    items += [(k, None) for k in LEMMAS if sub in k]
    bad = 0
    with ProcessPoolExecutor(16) as ex:
        for res in ex.map(work, items):
            for r in res:
                bad += 1
                print(r, flush=True)
    print(f"{len(items)} items x {len(OFFSETS)} offsets; {bad} unstable or slow obligations")
