import sys, ast, time
sys.path.insert(0, '/verif')
import contracts, lemmas
from pyvc.frontend import Repo
from pyvc.sym import Engine
from pyvc.verify import verify_one
from pyvc.api import CONTRACTS, LEMMAS
repo = Repo()
spec = ast.parse(open('/verif/contracts/spec.py').read())
eng = Engine(repo, spec, contracts.INLINE)
keys = [k for k in sys.argv[1:] if not k.startswith('-')] or list(CONTRACTS)+list(LEMMAS)
for k in keys:
    c = CONTRACTS.get(k)
    ctxs = (c.contexts if c is not None else None) or [None]
    lmv = LEMMAS[k].contract_kw.get("variants", []) if k in LEMMAS else []
    runs = []
    for ctx in ctxs:
        runs.append((ctx, None))
        runs += [(ctx, dict(v)) for v in lmv]
        if c is not None:
            runs += [(ctx, tuple(a)) for a in c.alias_cases]
            runs += [(ctx, dict(v)) for v in c.variants]
    for ctx, al in runs:
        t0 = time.time()
        r = verify_one(eng, k, ctx, timeout_ms=10000, alias=al)
        print(f"== {k} [{ctx}] {al or ''} paths={r.paths} {time.time()-t0:.2f}s", "UNSUPPORTED: "+r.unsupported if r.unsupported else "", r.error or "", "VACUOUS" if r.vacuous else "")
        for o in r.obligations:
            if o['status'] != 'proved' or '-v' in sys.argv:
                print("   ", o['status'], o['time'], o['name'], o['reason'])
        print("    proved", sum(o['status']=='proved' for o in r.obligations), "/", len(r.obligations))
