"""tools/seeded_table.py RESULTS.jsonl : record the outcome of tools/eval_seeded.py in seeded/*/meta.json (only where
meta.json has no check_result yet) and print the markdown table of DESIGN.md 12.7 from all meta.json files."""
import glob, json, os, re, sys
HERE = os.path.join(os.path.dirname(os.path.abspath(__file__)), "..")
res = {}
for f in sys.argv[1:]:
    for l in open(f):
        r = json.loads(l)
        res[os.path.basename(r["dir"].rstrip("/"))] = r
rows = []
for d in sorted(glob.glob(os.path.join(HERE, "seeded", "C*-m*")), key=lambda x: (x.split("/")[-1][:3], int(x.split("-m")[1]))):
    i = os.path.basename(d)
    mp = os.path.join(d, "meta.json")
    meta = json.load(open(mp))
    r = res.get(i)
    if r and "check_result" not in meta:
        v = r["checks"][meta["property"]]
        obs = []
        for ln in v["lines"]:
            m = re.search(r"replays/C\d\d/([^ ]+)\.json", ln)
            if ln.startswith("VIOLATION") and m:
                obs.append(m.group(1))
        meta["confirmed_in_scratch_copy"] = {
            "tests": r.get("tests"), "demo_exit_with_change": r.get("demo_with"), "demo_exit_without": r.get("demo_without"),
            "how": "tools/eval_seeded.py: rsync of /repo to a scratch directory under /tmp, git apply patch.diff, pytest (312 tests), "
                   "demo.py against both trees; scratch removed afterwards"}
        meta["check_result"] = {"command": f"PYVC_REPO=<scratch> python3-vt /verif/check.py --property {meta['property']}",
                                "exit": v["exit"], "violated_obligations": obs[:4],
                                "input_found": any(o.startswith("B.") for o in obs) or not any("no-failing-input-found" in ln for ln in v["lines"]),
                                "missed_by_the_first_version_of_the_check": (meta.get("first_evaluation") or {}).get("exit") != 1}
        json.dump(meta, open(mp, "w"), indent=1)
    cr = meta.get("check_result", {})
    cell = lambda s, n: str(s).replace("|", "/").replace("\n", " ")[:n]
    rows.append(f"| {i} | {cell(meta.get('breaks', ''), 110)} | {cell(meta.get('needs', ''), 130)} | "
                f"{', '.join(cr.get('violated_obligations', [])[:2])} | {'yes' if cr.get('input_found') else 'no'} |")
print("| id | what it breaks | needs | obligations that fail in the check of that property | input replayed |")
print("|---|---|---|---|---|")
print("\n".join(rows))
