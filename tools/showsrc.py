import ast,sys
def strip(path):
    src=open(path).read()
    tree=ast.parse(src)
    lines=src.split('\n')
    drop=set()
    for n in ast.walk(tree):
        if isinstance(n,(ast.FunctionDef,ast.ClassDef,ast.Module)):
            b=n.body
            if b and isinstance(b[0],ast.Expr) and isinstance(b[0].value,ast.Constant) and isinstance(b[0].value.value,str):
                for l in range(b[0].lineno,b[0].end_lineno+1): drop.add(l)
    for i,l in enumerate(lines,1):
        if i in drop or not l.strip(): continue
        print(f"{i:4d} {l}")
for p in sys.argv[1:]:
    print('=====',p); strip(p)
