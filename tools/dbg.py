import sys, ast, time
sys.path.insert(0, '/verif')
import contracts, lemmas
from pyvc.frontend import Repo
from pyvc.sym import Engine
from pyvc import verify as V
from pyvc.api import CONTRACTS, LEMMAS
import z3
repo = Repo()
spec = ast.parse(open('/verif/contracts/spec.py').read())
eng = Engine(repo, spec, contracts.INLINE)
key, ctx, pat = sys.argv[1], (sys.argv[2] if sys.argv[2] != '-' else None), sys.argv[3]
r = V.verify_one(eng, key, ctx, timeout_ms=5000)
print(r.unsupported, r.error)
ex = r._ex
for ob in ex.obligations:
    if pat in ob.name:
        print("=====", ob.name)
        for p in ob.pc: print("  H:", p)
        print("  G:", ob.goal)
        st, dt, reason, model, s = V.solve(eng, ob, 10000)
        print(st, dt, reason)
        if '--smt' in sys.argv: print(s.to_smt2())
        break
