"""stability probe: verify one contract under different fresh-name offsets"""
import sys, ast, time, itertools
sys.path.insert(0, '/verif')
import contracts, lemmas
from pyvc.frontend import Repo
from pyvc.sym import Engine
from pyvc import verify as V, values
repo = Repo(); spec = ast.parse(open('/verif/contracts/spec.py').read())
key, ctx = sys.argv[1], (sys.argv[2] if sys.argv[2] != '-' else None)
bad = 0
for off in [0, 7, 50, 113, 1000, 5003, 20011, 77777]:
    values._fresh_counter = itertools.count(off)
    eng = Engine(repo, spec, contracts.INLINE)
    V._BG = None
    r = V.verify_one(eng, key, ctx, timeout_ms=10000)
    fails = [o['name'].split('.')[-1] + ':' + o['status'] for o in r.obligations if o['status'] != 'proved']
    print(off, len(r.obligations), fails, r.unsupported or '')
    bad += bool(fails)
print("unstable" if bad else "stable")
